#!/usr/local/bin/python3-vt
"""tools/mkcase.py OUT.json INPUTHEX < source.x   -- build a replayable X case from source text."""
import json, os, sys
sys.path.insert(0, os.path.dirname(os.path.dirname(os.path.abspath(__file__))))
from pylib import xlang, xcase
src = sys.stdin.read()
P = xlang.resolve_syscall_names(xlang.parse(src))
inp = bytes.fromhex(sys.argv[2]) if len(sys.argv) > 2 else b''
case = xcase.case_dict(P, inp, {}, {'tier': 'quick', 'note': sys.argv[3] if len(sys.argv) > 3 else ''})
json.dump(case, open(sys.argv[1], 'w'), indent=1)
print(case['source'])
