#!/usr/local/bin/python3-vt
"""Sensitivity experiment: apply one textual mutation to a scratch copy of /repo and run checks against it.

  tools/mutant.py NAME FILE 'OLD' 'NEW' C02 [C03 ...]     (replaces the first occurrence of OLD; --all for every one)
  tools/mutant.py NAME --patch FILE.diff C01 ...

Prints one line per check: caught / MISSED.  The copy and its build cache are removed afterwards.
"""
import hashlib, os, shutil, subprocess, sys, time
HERE = os.path.dirname(os.path.dirname(os.path.abspath(__file__)))

def main():
    a = sys.argv[1:]
    name = a.pop(0)
    tier = 'quick'
    if '--thorough' in a:
        a.remove('--thorough'); tier = 'thorough'
    every = False
    if '--all' in a:
        a.remove('--all'); every = True
    copy = '/tmp/mut-%s-%d' % (name, os.getpid())
    subprocess.check_call(['git', '-C', '/repo', 'worktree', 'add', '--detach', '-q', copy, 'HEAD'])
    # carry over uncommitted working-tree edits of /repo too
    diff = subprocess.run(['git', '-C', '/repo', 'diff', 'HEAD'], stdout=subprocess.PIPE).stdout
    if diff.strip():
        subprocess.run(['git', '-C', copy, 'apply'], input=diff, check=True)
    try:
        if a[0] == '--patch':
            subprocess.check_call(['git', '-C', copy, 'apply', os.path.abspath(a[1])])
            checks = a[2:]
        else:
            f, old, new = a[0], a[1], a[2]
            checks = a[3:]
            p = os.path.join(copy, f)
            s = open(p).read()
            if old not in s:
                print('MUTATION DID NOT APPLY: %r not in %s' % (old, f)); return 2
            s = s.replace(old, new) if every else s.replace(old, new, 1)
            open(p, 'w').write(s)
        env = dict(os.environ, VERIF_REPO=copy)
        rc_all = 0
        for c in checks:
            t0 = time.time()
            r = subprocess.run([os.path.join(HERE, 'check'), c, '--tier', tier], env=env, stdout=subprocess.PIPE, stderr=subprocess.STDOUT)
            out = r.stdout.decode(errors='replace')
            viol = [l for l in out.splitlines() if l.startswith('VIOLATION')]
            verdict = 'caught' if (r.returncode == 1 and viol) else ('ERROR(rc=%d)' % r.returncode if r.returncode not in (0, 1) else 'MISSED')
            print('%-28s %s %-8s %5.1fs  %s' % (name, c, verdict, time.time() - t0, (out.splitlines()[[i for i,l in enumerate(out.splitlines()) if l.startswith('VIOLATION')][0]+1].strip()[:150] if viol else '')))
            if verdict != 'caught':
                rc_all = 1
                if os.environ.get('MUT_VERBOSE'):
                    print(out[-3000:])
        return rc_all
    finally:
        subprocess.run(['git', '-C', '/repo', 'worktree', 'remove', '--force', copy])
        alt = os.path.join(HERE, 'build', 'alt-' + hashlib.sha1(copy.encode()).hexdigest()[:10])
        shutil.rmtree(alt, ignore_errors=True)

if __name__ == '__main__':
    sys.exit(main())
