#!/usr/local/bin/python3-vt
"""Runs the sensitivity experiments of tools/mutants.txt (optionally only names matching argv[1:]) , N at a time."""
import re, subprocess, sys, os
from concurrent.futures import ThreadPoolExecutor
HERE = os.path.dirname(os.path.abspath(__file__))
rows = []
for ln in open(os.path.join(HERE, 'mutants.txt')):
    if ln.startswith('#') or not ln.strip():
        continue
    name, f, old, new, checks = re.split(r'(?<!\\)\|', ln.rstrip('\n'))
    old = old.replace('\\n', '\n').replace('\\|', '|'); new = new.replace('\\n', '\n').replace('\\|', '|')
    if sys.argv[2:] and not any(a in name for a in sys.argv[2:]):
        continue
    rows.append((name, f, old, new, checks.split()))
par = int(sys.argv[1]) if len(sys.argv) > 1 else 2
def one(r):
    name, f, old, new, checks = r
    p = subprocess.run([os.path.join(HERE, 'mutant.py'), name, f, old, new] + checks, stdout=subprocess.PIPE, stderr=subprocess.STDOUT)
    out = p.stdout.decode(errors='replace')
    sys.stdout.write(out); sys.stdout.flush()
    return out
with ThreadPoolExecutor(max_workers=par) as ex:
    list(ex.map(one, rows))
