#!/bin/bash
# tools/seed_eval.sh <ID> <worktree> <checks...> : confirm a seeded change and run our checks against it.
ID=$1; WT=$2; shift 2
set -u
OUT=/verif/seeded/$ID
mkdir -p $OUT
echo "== $ID: confirming in $WT"
( cd $WT && git diff > /tmp/$ID.actual.diff )
cp $WT/SEED/patch.diff $OUT/patch.diff; cp $WT/SEED/demo.sh $OUT/demo.sh; cp $WT/SEED/README.md $OUT/README.md
cmp -s /tmp/$ID.actual.diff $OUT/patch.diff && echo "patch.diff matches the worktree diff" || { echo "NOTE: patch.diff differs from worktree diff; using worktree diff"; cp /tmp/$ID.actual.diff $OUT/patch.diff; }
( cd $WT && cmake --build _build 2>&1 | tail -1 )
UT=$( cd $WT && _build/tests/unit/UnitTests 2>&1 | tail -2 | tr -d '\033' | grep -c "No errors detected" ); ( cd $WT && rm -f a a.bin simout2 )
bash $OUT/demo.sh $WT/_build > /tmp/$ID.demo_with.log 2>&1; RC_WITH=$?
bash $OUT/demo.sh /repo/_build > /tmp/$ID.demo_without.log 2>&1; RC_WITHOUT=$?
echo "unit tests pass with change: $UT ; demo with change rc=$RC_WITH ; demo on unmodified build rc=$RC_WITHOUT"
tail -3 /tmp/$ID.demo_with.log
RES=$(/verif/tools/mutant.py seed-$ID --patch $OUT/patch.diff "$@" 2>&1)
echo "$RES"
python3 - "$ID" "$UT" "$RC_WITH" "$RC_WITHOUT" "$RES" "$@" <<'PY'
import json, sys, re
ID, ut, rcw, rcwo, res = sys.argv[1:6]; checks = sys.argv[6:]
rows = []
for ln in res.splitlines():
    m = re.match(r'^seed-\S+\s+(C\d+)\s+(\S+)\s+([\d.]+)s\s*(.*)$', ln)
    if m: rows.append(dict(check=m.group(1), verdict=m.group(2), seconds=float(m.group(3)), first_line=m.group(4)))
meta = dict(id=ID, property=ID.split('-')[0], confirmed=dict(unit_tests_pass_with_change=(ut == '1'), demo_fails_with_change=(rcw != '0'), demo_passes_without_change=(rcwo == '0')),
            what_we_ran=['bash demo.sh <worktree>/_build (with change)', 'bash demo.sh /repo/_build (without)', 'tools/mutant.py seed-%s --patch seeded/%s/patch.diff %s' % (ID, ID, ' '.join(checks))],
            our_checks=rows, needs_to_manifest='see README.md')
json.dump(meta, open('/verif/seeded/%s/meta.json' % ID, 'w'), indent=1)
PY
