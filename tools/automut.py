#!/usr/local/bin/python3-vt
"""Automatic single-edit mutants: sensitivity of the quick checks to small changes nobody chose by hand.

  tools/automut.py generate SEED N   > list.txt     draw N mutation sites (file regions and operators below)
  tools/automut.py run list.txt [PAR]               run each through tools/mutant.py (scratch worktree, VERIF_REPO)

A line of the list is  name|file|line number|old line|new line|checks.  A mutant whose harness does not build is
reported as "nobuild" (not a survivor); survivors are triaged by hand: equivalent, outside every listed property,
or a blind spot of a generator (DESIGN 11.4).
"""
import os, random, re, subprocess, sys
from concurrent.futures import ThreadPoolExecutor
HERE = os.path.dirname(os.path.abspath(__file__))
REPO = '/repo'

# file, first line, last line, checks, weight
REGIONS = [
    ('xcmp.hpp', 1692, 1786, 'C01 C08', 2),        # Frame, Symbol, SymbolTable
    ('xcmp.hpp', 1831, 2006, 'C07 C01', 4),        # ConstProp, OptimiseExpr
    ('xcmp.hpp', 2055, 2720, 'C01 C08', 14),       # CodeBuffer, expression and statement code generation
    ('xcmp.hpp', 2721, 3061, 'C01 C08 C15', 8),    # locations, CodeGen, LowerDirectives, OptimiseDirectives
    ('xcmp.hpp', 215, 492, 'C01 C09', 4),          # lexer
    ('xcmp.hpp', 1254, 1663, 'C01 C09', 4),        # parser
    ('hexasm.hpp', 335, 420, 'C05 C04 C17', 3),
    ('hexasm.hpp', 439, 700, 'C05 C10 C04', 4),    # lexer, parser
    ('hexasm.hpp', 700, 946, 'C05 C04 C17 C15', 10),
    ('hexsim.hpp', 76, 392, 'C02 C12 C15', 10),
    ('hexsimio.hpp', 1, 57, 'C02 C06 C12', 3),
    ('hextb.cpp', 19, 199, 'C06 C13', 8),
    ('verilog/processor.sv', 1, 149, 'C03 C06', 8),
    ('verilog/memory.sv', 1, 30, 'C03 C06 C13', 2),
    ('verilog/hex.sv', 1, 57, 'C06 C13', 2),
    ('verilog/processor.v', 1, 400, 'C16', 4),
    ('hexasm.cpp', 19, 97, 'C14', 2), ('xcmp.cpp', 30, 110, 'C14 C11', 2), ('xrun.cpp', 20, 80, 'C14', 2), ('hexsim.cpp', 20, 70, 'C14 C12', 2),
]

SUBS = [(' + ', ' - '), (' - ', ' + '), ('<=', '<'), ('>=', '>'), (' < ', ' <= '), (' > ', ' >= '), ('==', '!='), ('!=', '=='), ('&&', '||'), ('||', '&&'),
        ('true', 'false'), ('false', 'true'), ('<<', '>>'), (' & ', ' | '), (' | ', ' & '), ('++', '--'), ('+=', '-='), ('-=', '+='), (' 0)', ' 1)'), (' 1)', ' 2)'),
        (' 1;', ' 2;'), (' 0;', ' 1;'), ('[0]', '[1]'), ('(1)', '(2)'), ('+1', '+2'), ('-1', '-2'), (' 4', ' 8'), (' 3', ' 2'), ('0xF', '0x7'), ('0xFF', '0x7F')]
SKIP = re.compile(r'^\s*(//|/\*|\*|#|assert|throw|static_assert)|boost::format|std::cerr|std::cout|Error\(|"[^"]*(expected|error|Error|usage|Usage)')


def candidates(path, lo, hi):
    lines = open(os.path.join(REPO, path), errors='replace').read().split('\n')
    out = []
    for i in range(lo - 1, min(hi, len(lines))):
        ln = lines[i]
        if SKIP.search(ln) or not ln.strip():
            continue
        code = ln.split('//')[0]
        for a, b in SUBS:
            k = code.find(a)
            if k >= 0:
                out.append((i + 1, ln, ln[:k] + b + ln[k + len(a):], 'sub'))
        s = code.strip()
        if re.match(r'^[A-Za-z_][A-Za-z0-9_:\.\->\[\]]*\(.*\);$', s) and not s.startswith(('return', 'if', 'for', 'while', 'switch')):
            out.append((i + 1, ln, ln[:len(ln) - len(ln.lstrip())] + ';', 'del'))      # delete a call statement
        m = re.match(r'^(\s*)([A-Za-z_][A-Za-z0-9_\.\->\[\]]*) (<?=) (.*);$', code.rstrip())
        if m and m.group(3) in ('=', '<=') and '==' not in code and path.endswith(('.sv', '.v')) is False and 'auto' not in code and 'const' not in code:
            pass
    return out


def generate(seed, n):
    r = random.Random(seed)
    pool = []
    only = os.environ.get('AUTOMUT_FILES', '').split()
    for (f, lo, hi, checks, w) in REGIONS:
        if only and f not in only:
            continue
        c = candidates(f, lo, hi)
        r.shuffle(c)
        pool.append((f, checks, w, c))
    total = sum(w for _, _, w, _ in pool)
    seen = set()
    k = 0
    while k < n:
        x = r.uniform(0, total)
        for f, checks, w, c in pool:
            x -= w
            if x <= 0:
                break
        if not c:
            continue
        line, old, new, kind = c.pop()
        if (f, line) in seen:
            continue
        seen.add((f, line))
        k += 1
        print('am%d-%s-%s%d|%s|%d|%s|%s|%s' % (seed, kind, os.path.basename(f).split('.')[0], line, f, line, old.replace('|', '\\|'), new.replace('|', '\\|'), checks))


def run(path, par):
    rows = []
    for ln in open(path):
        if ln.startswith('#') or not ln.strip():
            continue
        name, f, line, old, new, checks = re.split(r'(?<!\\)\|', ln.rstrip('\n'))
        rows.append((name, f, int(line), old.replace('\\|', '|'), new.replace('\\|', '|'), checks.split()))

    def one(row):
        name, f, line, old, new, checks = row
        # a patch that replaces exactly that line
        src = open(os.path.join(REPO, f), errors='replace').read().split('\n')
        if src[line - 1] != old:
            return '%s STALE (line %d of %s changed)\n' % (name, line, f)
        import difflib
        dst = list(src)
        dst[line - 1] = new
        diff = ''.join(difflib.unified_diff([l + '\n' for l in src], [l + '\n' for l in dst], 'a/' + f, 'b/' + f, n=3))
        pf = '/tmp/automut-%s.diff' % name
        open(pf, 'w').write(diff)
        p = subprocess.run([os.path.join(HERE, 'mutant.py'), name, '--patch', pf] + checks, stdout=subprocess.PIPE, stderr=subprocess.STDOUT)
        os.unlink(pf)
        out = p.stdout.decode(errors='replace')
        verdicts = re.findall(r'^\S+\s+(C\d+)\s+(caught|MISSED|ERROR\(rc=\d+\))', out, re.M)
        if any(v == 'caught' for _, v in verdicts):
            res = 'caught by ' + ' '.join(c for c, v in verdicts if v == 'caught') + (' (missed by ' + ' '.join(c for c, v in verdicts if v == 'MISSED') + ')' if any(v == 'MISSED' for _, v in verdicts) else '')
        elif verdicts and all(v.startswith('ERROR') for _, v in verdicts):
            res = 'nobuild'
        elif not verdicts:
            res = 'nopatch ' + out[-200:].replace('\n', ' ')
        else:
            res = 'SURVIVED ' + ' '.join('%s:%s' % cv for cv in verdicts)
        line_out = '%-28s %s:%d  %s\n    - %s\n    + %s\n' % (name, f, line, res, old.strip()[:150], new.strip()[:150])
        sys.stdout.write(line_out)
        sys.stdout.flush()
        return line_out
    with ThreadPoolExecutor(max_workers=par) as ex:
        list(ex.map(one, rows))


if __name__ == '__main__':
    if sys.argv[1] == 'generate':
        generate(int(sys.argv[2]), int(sys.argv[3]))
    else:
        run(sys.argv[2], int(sys.argv[3]) if len(sys.argv) > 3 else 2)
