#!/usr/local/bin/python3-vt
"""Regenerates seeded/README.md from seeded/*/meta.json."""
import glob, json, os
HERE = os.path.dirname(os.path.dirname(os.path.abspath(__file__)))
rows = []
for m in sorted(glob.glob(os.path.join(HERE, 'seeded', '*', 'meta.json'))):
    d = json.load(open(m))
    readme = open(os.path.join(os.path.dirname(m), 'README.md')).read().strip().splitlines()
    c = d['confirmed']
    conf = 'yes' if all(c.values()) else 'NO: %r' % c
    checks = '; '.join('%s %s' % (r['check'], r['verdict']) for r in d['our_checks'])
    if d.get('strengthened'):
        checks += ' -> after strengthening: ' + '; '.join('%s %s' % (r['check'], r['verdict']) for r in d.get('our_checks_after_strengthening', [])) + ' (' + d['strengthened'] + ')'
    rows.append((d['id'], d['property'], conf, checks, d.get('summary', '')))
out = ['# Seeded changes', '',
       'Each directory holds a change to jameshanlon/hex-processor written by an independent sub-agent that was given only the text of one property',
       'and its own scratch worktree: `patch.diff`, the agent\'s demonstration `demo.sh <build-dir>` (exit 1 with the change, 0 without), its `README.md`, and',
       '`meta.json` (what was confirmed here, what was run, what our checks reported). None of these changes is ever committed to /repo.', '',
       '| id | breaks | confirmed (tests pass, demo fails with / passes without) | our quick checks | what it needs to manifest |', '|---|---|---|---|---|']
for r in rows:
    out.append('| %s | %s | %s | %s | %s |' % r)
open(os.path.join(HERE, 'seeded', 'README.md'), 'w').write('\n'.join(out) + '\n')
print('\n'.join(out))
