"""Shared driver of the two libFuzzer-based checks (C09: xcmp, C10: hexasm)."""
import glob
import json
import os
import re
import resource
import shutil
import subprocess

from . import build, driver

FUZZ_ENV = {'ASAN_OPTIONS': 'detect_leaks=0:alloc_dealloc_mismatch=0:abort_on_error=1:handle_abort=1:allocator_may_return_null=1',
            'UBSAN_OPTIONS': 'print_stacktrace=1:abort_on_error=1'}


def _big_stack():
    # the parser and the visitors recurse once per nesting level and sanitizer frames are several times larger than
    # production frames: give the instrumented target a 1 GB stack so that a deep (<= 4 KB) input is not an artefact
    try:
        resource.setrlimit(resource.RLIMIT_STACK, (1 << 30, resource.getrlimit(resource.RLIMIT_STACK)[1]))
    except (ValueError, OSError):
        pass


def run_one(exe, path, cwd, timeout=120):
    """Execute one saved input. Returns (crashed, signature, report)."""
    env = dict(os.environ)
    env.update(FUZZ_ENV)
    try:
        r = subprocess.run([exe, path], cwd=cwd, stdout=subprocess.PIPE, stderr=subprocess.PIPE, env=env, timeout=timeout, preexec_fn=_big_stack)
    except subprocess.TimeoutExpired:
        return True, 'hang', 'no result within %d s' % timeout
    err = r.stderr.decode(errors='replace')
    if r.returncode == 0:
        return False, '', ''
    return True, signature(err), err[-3000:]


def signature(err):
    """(sanitizer kind, innermost frame inside /repo by function name) - line numbers and addresses removed."""
    m = re.search(r'(ORACLE-VIOLATION: [^\n]*|runtime error: [^\n]*|AddressSanitizer: [a-zA-Z-]+|Assertion `[^\']*\' failed|libFuzzer: [a-z -]+)', err)
    kind = m.group(1) if m else 'crash'
    kind = re.sub(r'0x[0-9a-f]+', 'A', kind)
    kind = re.sub(r'-?\d+', 'N', kind)
    fn = re.search(r'#\d+ 0x[0-9a-f]+ in ((?:xcmp|hexasm|hexutil)::[A-Za-z0-9_:~<>]+)', err)
    return kind[:110] + ' @ ' + (fn.group(1) if fn else '?')


def campaign(ctx, target, corpus_dirs, seconds, scratch, dict_words=None, seed=1):
    """One -fork campaign per corpus; returns list of (artifact path, kind)."""
    exe = os.path.join(build.build(target), target)
    arts = []
    totals = {}
    for ci, cdir in enumerate(corpus_dirs):
        work = os.path.join(scratch, 'camp%d' % ci)
        corp = os.path.join(work, 'corpus')
        art = os.path.join(work, 'art')
        stats = os.path.join(work, 'stats')
        for d in (corp, art, stats):
            os.makedirs(d)
        if cdir:
            for f in sorted(glob.glob(os.path.join(cdir, '*'))):
                shutil.copy(f, corp)
        env = dict(os.environ)
        env.update(FUZZ_ENV)
        env['FUZZ_STATS_DIR'] = stats
        s = seed * 10 + ci + 1
        cmd = [exe, corp, '-max_len=4096', '-timeout=10', '-fork=%d' % driver.NCPU, '-ignore_crashes=1', '-ignore_timeouts=1', '-ignore_ooms=1',
               '-max_total_time=%d' % seconds, '-artifact_prefix=' + art + '/', '-seed=%d' % s, '-entropic=0', '-print_final_stats=1', '-rss_limit_mb=3000']
        log = os.path.join(work, 'log')
        with open(log, 'w') as lf:
            try:
                subprocess.run(cmd, cwd=work, stdout=lf, stderr=subprocess.STDOUT, env=env, timeout=seconds + 180, preexec_fn=_big_stack)
            except subprocess.TimeoutExpired:
                ctx.notes.setdefault('campaign_notes', []).append('campaign %d overran its budget and was stopped' % ci)
        for f in glob.glob(os.path.join(stats, '*.json')):
            try:
                for k, v in json.load(open(f)).items():
                    totals[k] = totals.get(k, 0) + v
            except Exception:
                pass
        for f in sorted(glob.glob(os.path.join(art, '*'))):
            base = os.path.basename(f)
            kind = base.split('-')[0]
            arts.append((f, kind, work))
        ctx.notes.setdefault('campaigns', []).append(dict(corpus=('seeded' if cdir else 'empty'), seconds=seconds, libfuzzer_seed=s,
                                                            final_corpus=len(os.listdir(corp)), artefacts=len(glob.glob(os.path.join(art, '*')))))
    return exe, arts, totals


def triage(ctx, exe, arts, scratch, plain_check=None):
    """Bucket crash artefacts by signature; timeouts are re-run alone (60 s x3); returns {signature: (smallest input bytes, report)}."""
    buckets = {}
    # a tree with a shallow defect produces hundreds of artefacts: triage the smallest few of each kind
    by_kind = {}
    for a in sorted(arts, key=lambda a: os.path.getsize(a[0])):
        by_kind.setdefault(a[1], []).append(a)
    limited = []
    for kind, lst in by_kind.items():
        cap = 4 if kind == 'timeout' else 40
        limited += lst[:cap]
        if len(lst) > cap:
            ctx.notes['artefacts_not_triaged_' + kind] = len(lst) - cap
    arts = limited
    for path, kind, work in arts:
        if kind in ('oom', 'slow'):
            ctx.notes['load_artefacts_ignored'] = ctx.notes.get('load_artefacts_ignored', 0) + 1
            continue
        data = open(path, 'rb').read()
        if kind == 'timeout':
            if 'hang' in buckets:
                continue            # one confirmed non-terminating input is enough; the others are most likely the same loop
            hangs = 0
            for _ in range(3):
                c, sig, rep = run_one(exe, path, work, timeout=30)
                if c and sig == 'hang':
                    hangs += 1
                else:
                    break
            if hangs < 3:
                ctx.notes['timeouts_not_reproduced'] = ctx.notes.get('timeouts_not_reproduced', 0) + 1
                continue
            sig, rep = 'hang', 'the input never finished within 30 s, three times in a row'
        else:
            c, sig, rep = run_one(exe, path, work)
            if not c:
                ctx.flaky.append({'artefact': os.path.basename(path), 'note': 'does not reproduce from the saved input'})
                continue
            if 'stack-overflow' in sig and plain_check is not None and not plain_check(data):
                # an artefact of the instrumentation: the production executable handles this input with the default stack
                ctx.notes['stack_overflow_only_under_sanitizer'] = ctx.notes.get('stack_overflow_only_under_sanitizer', 0) + 1
                continue
        if sig not in buckets or len(data) < len(buckets[sig][0]):
            buckets[sig] = (data, rep)
    return buckets


def minimise_crash(exe, data, sig, scratch, budget_s=20):
    """libFuzzer -minimize_crash keeping the same signature."""
    work = os.path.join(scratch, 'min')
    os.makedirs(work, exist_ok=True)
    src = os.path.join(work, 'in')
    open(src, 'wb').write(data)
    env = dict(os.environ)
    env.update(FUZZ_ENV)
    out = os.path.join(work, 'min-out')
    try:
        subprocess.run([exe, '-minimize_crash=1', '-max_total_time=%d' % budget_s, '-exact_artifact_path=' + out, src], cwd=work, stdout=subprocess.PIPE,
                       stderr=subprocess.PIPE, env=env, timeout=budget_s + 60, preexec_fn=_big_stack)
    except subprocess.TimeoutExpired:
        pass
    best = data
    cands = sorted(glob.glob(os.path.join(work, 'minimized-from-*')) + ([out] if os.path.exists(out) else []), key=os.path.getsize)
    for c in cands:
        d = open(c, 'rb').read()
        if len(d) < len(best):
            crashed, s2, _ = run_one(exe, c, work)
            if crashed and s2 == sig:
                best = d
                break
    return best
