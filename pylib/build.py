"""Content-addressed build cache.

Every target is built from /repo's *current working tree*: the cache key is a
hash over the exact contents of the files the target depends on (plus the
harness sources and the flags), so an unchanged tree costs nothing and an
edited file rebuilds exactly the targets that include it.
"""
import fcntl
import glob
import hashlib
import os
import shutil
import subprocess
import sys
import time

VERIF = os.path.dirname(os.path.dirname(os.path.abspath(__file__)))
REPO = os.environ.get('VERIF_REPO', '/repo')
BUILD = os.path.join(VERIF, 'build')
if REPO != '/repo':
    # scratch copies of the repository (mutation experiments) get their own cache, removed with the copy
    BUILD = os.path.join(VERIF, 'build', 'alt-' + hashlib.sha1(REPO.encode()).hexdigest()[:10])
SRC = os.path.join(VERIF, 'src')
GUARD = 'HEX_VERIF'

VERILATOR_ROOT = '/usr/share/verilator'


class BuildError(Exception):
    pass


def _r(*names):
    return [os.path.join(REPO, n) for n in names]


def _s(*names):
    return [os.path.join(SRC, n) for n in names]


CXX_HDRS = _r('hex.hpp', 'hexasm.hpp', 'hexsim.hpp', 'hexsimio.hpp', 'util.hpp', 'xcmp.hpp')
SV = _r('verilog/hex_pkg.sv', 'verilog/hex.sv', 'verilog/processor.sv', 'verilog/memory.sv')

PLAIN = 'g++ -std=c++17 -Wall -pedantic -Wno-error -O2 -DNDEBUG'
SAN = ('clang++ -std=gnu++17 -g -O1 -fsanitize=address,undefined -fno-sanitize-recover=undefined '
       '-fno-omit-frame-pointer -D_GLIBCXX_ASSERTIONS -D%s -I%s -I%s' % (GUARD, REPO, SRC))
FUZZ = ('clang++ -std=gnu++17 -g -O1 -fsanitize=fuzzer,address,undefined -fno-sanitize-recover=undefined '
        '-fno-omit-frame-pointer -D%s -I%s -I%s' % (GUARD, REPO, SRC))
RC = 'g++ -std=c++17 -O2 -g -D%s -I%s -I%s' % (GUARD, REPO, SRC)


def _verilate(prefix, top, srcs, out, extra=''):
    return ('verilator --cc --prefix %s --top-module %s %s -Wno-fatal --Mdir %s %s > %s/verilate.log 2>&1'
            % (prefix, top, extra, out, ' '.join(srcs), out))


def _vl_compile(out, prefix, extra_srcs, exe, cxxflags='', trace=False, libs=''):
    """Build the verilated model archive with its makefile, then link a harness."""
    rt = ['%s/include/verilated.cpp' % VERILATOR_ROOT, '%s/include/verilated_threads.cpp' % VERILATOR_ROOT]
    if trace:
        rt.append('%s/include/verilated_vcd_c.cpp' % VERILATOR_ROOT)
    return [
        'make -s -C %s -f %s.mk -j8 %s__ALL.a OPT_FAST="-O2" > %s/make.log 2>&1' % (out, prefix, prefix, out),
        ('g++ -std=c++17 -O2 %s -I%s -I%s/include -I%s/include/vltstd -I%s -I%s %s %s %s/%s__ALL.a %s -pthread -o %s/%s'
         % (cxxflags, out, VERILATOR_ROOT, VERILATOR_ROOT, REPO, SRC, ' '.join(extra_srcs), ' '.join(rt), out, prefix, libs, out, exe)),
    ]


def _targets():
    t = {}
    # The real executables, as CMakeLists.txt builds them (RelWithDebInfo flags minus -g).
    for tool, srcs in (('hexasm', ['hex.cpp', 'hexasm.cpp']), ('hexsim', ['hex.cpp', 'hexsim.cpp']),
                       ('xcmp', ['hex.cpp', 'xcmp.cpp']), ('xrun', ['hex.cpp', 'xrun.cpp'])):
        t['tool-' + tool] = dict(
            deps=CXX_HDRS + _r(*srcs),
            cmds=lambda out, srcs=srcs, tool=tool: ['%s %s -o %s/%s' % (PLAIN, ' '.join(_r(*srcs)), out, tool)])
    t['hextb'] = dict(
        deps=SV + _r('hextb.cpp', 'hex.cpp', 'hex.hpp', 'hexsimio.hpp'),
        cmds=lambda out: [_verilate('Vhex_pkg', 'hex', SV, out, '--trace')] +
        _vl_compile(out, 'Vhex_pkg', _r('hextb.cpp', 'hex.cpp'), 'hextb', trace=True))
    t['refrun'] = dict(
        deps=_s('refrun.cpp', 'refisa.hpp', 'refmon.hpp', 'vjson.hpp'),
        cmds=lambda out: ['g++ -std=c++17 -O2 -I%s %s -o %s/refrun' % (SRC, _s('refrun.cpp')[0], out)])
    t['xtool'] = dict(
        deps=CXX_HDRS + _r('hex.cpp') + _s('xtool.cpp', 'refisa.hpp', 'refmon.hpp', 'vjson.hpp', 'fillnew.hpp'),
        cmds=lambda out: ['%s %s %s -o %s/xtool' % (SAN, _s('xtool.cpp')[0], _r('hex.cpp')[0], out)])
    t['asmtool'] = dict(
        deps=CXX_HDRS + _r('hex.cpp') + _s('asmtool.cpp', 'refisa.hpp', 'vjson.hpp', 'fillnew.hpp'),
        cmds=lambda out: ['%s %s %s -o %s/asmtool' % (SAN, _s('asmtool.cpp')[0], _r('hex.cpp')[0], out)])
    t['c04enum'] = dict(
        deps=CXX_HDRS + _r('hex.cpp') + _s('c04_encode.cpp', 'refisa.hpp', 'vjson.hpp'),
        cmds=lambda out: ['g++ -std=c++17 -O2 -fsanitize=undefined -fno-sanitize-recover=undefined -I%s -I%s %s %s -o %s/c04enum'
                          % (REPO, SRC, _s('c04_encode.cpp')[0], _r('hex.cpp')[0], out)])
    t['c04rc'] = dict(
        deps=CXX_HDRS + _r('hex.cpp') + _s('c04_rc.cpp', 'refisa.hpp', 'vjson.hpp'),
        cmds=lambda out: ['%s %s %s -lrapidcheck -o %s/c04rc' % (SAN, _s('c04_rc.cpp')[0], _r('hex.cpp')[0], out)])
    t['c02'] = dict(
        deps=CXX_HDRS + _r('hex.cpp') + _s('c02_lockstep.cpp', 'refisa.hpp', 'vjson.hpp', 'isagen.hpp'),
        cmds=lambda out: ['%s -fsanitize=address,undefined -fno-sanitize-recover=undefined %s %s -lrapidcheck -o %s/c02'
                          % (RC, _s('c02_lockstep.cpp')[0], _r('hex.cpp')[0], out)])
    t['c12fill'] = dict(
        deps=CXX_HDRS + _r('hex.cpp') + _s('c12_fill.cpp', 'refisa.hpp', 'vjson.hpp', 'fillnew.hpp'),
        cmds=lambda out: ['%s %s %s -o %s/c12fill' % (RC, _s('c12_fill.cpp')[0], _r('hex.cpp')[0], out)])
    # Verilated models with public flat access.
    PV = _r('verilog/processor.v')
    SVV = _r('verilog/hex_pkg.sv', 'verilog/hex.sv', 'verilog/processor.v', 'verilog/memory.sv')
    t['c03'] = dict(
        deps=SV + _s('c03_rtl.cpp', 'refisa.hpp', 'vjson.hpp', 'isagen.hpp'),
        cmds=lambda out: [_verilate('Vrtl', 'hex', SV, out, '--public-flat-rw')] +
        _vl_compile(out, 'Vrtl', _s('c03_rtl.cpp'), 'c03', libs='-lrapidcheck'))
    t['c16'] = dict(
        deps=SV + PV + _r('synth/processor.v') + _s('c16_v_vs_sv.cpp', 'refisa.hpp', 'vjson.hpp', 'isagen.hpp'),
        cmds=lambda out: _c16_cmds(out))
    t['c13planted'] = dict(
        deps=SV + _r('hextb.cpp', 'hex.cpp', 'hex.hpp', 'hexsimio.hpp') + _s('c13_planted.cpp', 'refisa.hpp', 'vjson.hpp'),
        cmds=lambda out: [_verilate('Vhex_pkg', 'hex', SV, out, '--trace --public-flat-rw')] +
        _vl_compile(out, 'Vhex_pkg', _s('c13_planted.cpp') + _r('hex.cpp'), 'c13planted', trace=True))
    t['fuzz-xcmp'] = dict(
        deps=CXX_HDRS + _r('hex.cpp') + _s('fuzz_xcmp.cpp', 'fuzz_common.hpp', 'fillnew.hpp'),
        cmds=lambda out: ['%s %s %s -o %s/fuzz-xcmp' % (FUZZ, _s('fuzz_xcmp.cpp')[0], _r('hex.cpp')[0], out)])
    t['fuzz-hexasm'] = dict(
        deps=CXX_HDRS + _r('hex.cpp') + _s('fuzz_hexasm.cpp', 'fuzz_common.hpp', 'fillnew.hpp'),
        cmds=lambda out: ['%s %s %s -o %s/fuzz-hexasm' % (FUZZ, _s('fuzz_hexasm.cpp')[0], _r('hex.cpp')[0], out)])
    return t


def _c16_cmds(out):
    """Three processor-only models (processor.sv, verilog/processor.v, synth/processor.v) plus
    two full designs (hex with .sv / with .v) in one harness."""
    cmds = []
    pkg = _r('verilog/hex_pkg.sv')[0]
    mods = [('Vpsv', 'processor', [pkg, _r('verilog/processor.sv')[0]]),
            ('Vpv', 'processor', [_r('verilog/processor.v')[0]]),
            ('Vpsy', 'processor', [_r('synth/processor.v')[0]]),
            ('Vhsv', 'hex', SV),
            ('Vhv', 'hex', _r('verilog/hex_pkg.sv', 'verilog/hex.sv', 'verilog/processor.v', 'verilog/memory.sv'))]
    for prefix, top, srcs in mods:
        d = os.path.join(out, prefix)
        cmds.append('mkdir -p %s' % d)
        cmds.append(_verilate(prefix, top, srcs, d, '--public-flat-rw'))
    cmds.append(' & '.join('make -s -C %s/%s -f %s.mk -j4 %s__ALL.a OPT_FAST="-O2" > %s/%s/make.log 2>&1'
                           % (out, p, p, p, out, p) for p, _, _ in mods) + ' & wait')
    rt = ['%s/include/verilated.cpp' % VERILATOR_ROOT, '%s/include/verilated_threads.cpp' % VERILATOR_ROOT]
    incs = ' '.join('-I%s/%s' % (out, p) for p, _, _ in mods)
    libs = ' '.join('%s/%s/%s__ALL.a' % (out, p, p) for p, _, _ in mods)
    cmds.append('g++ -std=c++17 -O2 %s -I%s/include -I%s/include/vltstd -I%s -I%s %s %s %s -lrapidcheck -pthread -o %s/c16'
                % (incs, VERILATOR_ROOT, VERILATOR_ROOT, REPO, SRC, _s('c16_v_vs_sv.cpp')[0], ' '.join(rt), libs, out))
    return cmds


def _hash(name, spec):
    h = hashlib.sha256()
    h.update(name.encode())
    probe = spec['cmds']('@OUT@')
    h.update('\n'.join(probe).encode())
    for d in spec['deps']:
        h.update(d.encode())
        try:
            with open(d, 'rb') as f:
                h.update(f.read())
        except OSError:
            h.update(b'<missing>')
    return h.hexdigest()[:16]


def build(name, quiet=True):
    """Build target `name` (if not cached) and return its output directory."""
    targets = _targets()
    if name == 'tools':
        raise ValueError('use tool(name)')
    spec = targets[name]
    key = _hash(name, spec)
    out = os.path.join(BUILD, '%s-%s' % (name, key))
    os.makedirs(BUILD, exist_ok=True)
    if os.path.exists(os.path.join(out, '.ok')):
        return out
    lock = open(os.path.join(BUILD, '.lock-%s' % name), 'w')
    fcntl.flock(lock, fcntl.LOCK_EX)
    try:
        if os.path.exists(os.path.join(out, '.ok')):
            return out
        # Remove stale builds of this target (disk space).
        for old in glob.glob(os.path.join(BUILD, name + '-*')):
            if old != out and os.path.basename(old).rsplit('-', 1)[0] == name:
                shutil.rmtree(old, ignore_errors=True)
        shutil.rmtree(out, ignore_errors=True)
        os.makedirs(out)
        t0 = time.time()
        for cmd in spec['cmds'](out):
            r = subprocess.run(cmd, shell=True, stdout=subprocess.PIPE, stderr=subprocess.STDOUT, cwd=out)
            if r.returncode != 0:
                logs = ''
                for lf in ('verilate.log', 'make.log'):
                    p = os.path.join(out, lf)
                    if os.path.exists(p):
                        logs += open(p, errors='replace').read()[-3000:]
                raise BuildError('build of %s failed: %s\n%s\n%s' % (name, cmd, r.stdout.decode(errors='replace')[-6000:], logs))
        open(os.path.join(out, '.ok'), 'w').write('%.1f\n' % (time.time() - t0))
        if not quiet:
            sys.stderr.write('[build] %s in %.1fs\n' % (name, time.time() - t0))
        return out
    finally:
        fcntl.flock(lock, fcntl.LOCK_UN)
        lock.close()


def build_many(names):
    """Build several targets in parallel; returns {name: dir}."""
    from concurrent.futures import ThreadPoolExecutor
    with ThreadPoolExecutor(max_workers=min(8, len(names) or 1)) as ex:
        res = list(ex.map(build, names))
    return dict(zip(names, res))


def exe(name):
    """Path of the executable of a single-executable target."""
    d = build(name)
    base = name[5:] if name.startswith('tool-') else name
    return os.path.join(d, base)


if __name__ == '__main__':
    for n in sys.argv[1:]:
        print(n, build(n, quiet=False))
