"""X language: AST (tuples/dicts), pretty-printer, and an independent parser (used only by selftest).

Expressions
  ('num', v)            decimal literal, 0 <= v < 2**32 (value is the 32-bit two's-complement reading)
  ('hex', v)            the same written as #HEX
  ('bool', b) ('chr', c) ('str', s)
  ('var', name)         variable, val or array name
  ('idx', name, e)      array element
  ('call', name, [args])            function call
  ('syscall', callee, [args])       callee is an int (literal number) or a val name; as expression only `read`
  ('neg', e) ('not', e)
  ('bin', op, l, r)     op in + - = ~= < <= > >= and or
  ('paren', e)          redundant parentheses
Statements
  ('skip',) ('stop',) ('ret', e) ('if', c, t, f) ('while', c, s) ('seq', [s...])
  ('ass', target, e)    target is ('var', n) or ('idx', n, e)
  ('pcall', name, [args]) ('syscall', callee, [args])
Program
  dict(globals=[('val', n, e) | ('var', n) | ('array', n, e)], procs=[dict(kind='proc'|'func', name, formals=[(kind, n)],
       locals=[('var', n) | ('val', n, e)], body=stmt)])
"""
import re

ASSOC = {'+', 'and', 'or'}
BINOPS = ['+', '-', '=', '~=', '<', '<=', '>', '>=', 'and', 'or']
INT_MIN = -2**31
INT_MAX = 2**31 - 1
KEYWORDS = {'and', 'array', 'do', 'else', 'false', 'func', 'if', 'is', 'or', 'proc', 'return', 'skip', 'stop', 'then',
            'true', 'val', 'var', 'while'}
ESC = {'\n': '\\n', '\t': '\\t', '\r': '\\r', '\\': '\\\\', "'": "\\'", '"': '\\"'}


def wrap32(v):
    return (v + 2**31) % 2**32 - 2**31


# ---------------------------------------------------------------------------
# Printer: emits exactly the parentheses X's no-precedence grammar requires.
# ---------------------------------------------------------------------------

def p_callee(c):
    return str(c)


def p_elem(e):
    k = e[0]
    if k == 'num':
        return str(e[1])
    if k == 'hex':
        return '#%X' % e[1]
    if k == 'bool':
        return 'true' if e[1] else 'false'
    if k == 'chr':
        return "'" + ESC.get(e[1], e[1]) + "'"
    if k == 'str':
        return '"' + ''.join(ESC.get(c, c) for c in e[1]) + '"'
    if k == 'var':
        return e[1]
    if k == 'idx':
        return e[1] + '[' + p_expr(e[2]) + ']'
    if k == 'call':
        return e[1] + '(' + ', '.join(p_expr(a) for a in e[2]) + ')'
    if k == 'syscall':
        return p_callee(e[1]) + '(' + ', '.join(p_expr(a) for a in e[2]) + ')'
    if k == 'paren':
        return '(' + p_expr(e[1]) + ')'
    return '(' + p_expr(e) + ')'


def p_rhs(op, r):
    if r[0] == 'bin' and r[1] == op and op in ASSOC:
        return p_elem(r[2]) + ' ' + op + ' ' + p_rhs(op, r[3])
    return p_elem(r)


def p_expr(e):
    k = e[0]
    if k == 'neg':
        return '-' + p_elem(e[1])
    if k == 'not':
        return '~' + p_elem(e[1])
    if k == 'bin':
        return p_elem(e[2]) + ' ' + e[1] + ' ' + p_rhs(e[1], e[3])
    return p_elem(e)


def p_stmt(s, ind=1):
    I = '  ' * ind
    k = s[0]
    if k == 'skip':
        return I + 'skip'
    if k == 'stop':
        return I + 'stop'
    if k == 'ret':
        return I + 'return ' + p_expr(s[1])
    if k == 'if':
        return I + 'if ' + p_expr(s[1]) + ' then\n' + p_stmt(s[2], ind + 1) + '\n' + I + 'else\n' + p_stmt(s[3], ind + 1)
    if k == 'while':
        return I + 'while ' + p_expr(s[1]) + ' do\n' + p_stmt(s[2], ind + 1)
    if k == 'seq':
        return I + '{\n' + ';\n'.join(p_stmt(x, ind + 1) for x in s[1]) + '\n' + I + '}'
    if k == 'ass':
        return I + p_elem(s[1]) + ' := ' + p_expr(s[2])
    if k == 'pcall':
        return I + s[1] + '(' + ', '.join(p_expr(a) for a in s[2]) + ')'
    if k == 'syscall':
        return I + p_callee(s[1]) + '(' + ', '.join(p_expr(a) for a in s[2]) + ')'
    raise ValueError(k)


def p_prog(P):
    out = []
    for g in P['globals']:
        if g[0] == 'val':
            out.append('val %s = %s;' % (g[1], p_expr(g[2])))
        elif g[0] == 'var':
            out.append('var %s;' % g[1])
        else:
            out.append('array %s[%s];' % (g[1], p_expr(g[2])))
    for pr in P['procs']:
        out.append('%s %s(%s) is' % (pr['kind'], pr['name'], ', '.join(k + ' ' + n for k, n in pr['formals'])))
        for l in pr['locals']:
            if l[0] == 'val':
                out.append('  val %s = %s;' % (l[1], p_expr(l[2])))
            else:
                out.append('  var %s;' % l[1])
        out.append(p_stmt(pr['body']))
    return '\n'.join(out) + '\n'


# ---------------------------------------------------------------------------
# Independent parser (selftest only): the grammar xcmp documents in its comments.
# ---------------------------------------------------------------------------

TOKEN = re.compile(r"""\s+|\|[^\n]*|(?P<id>[A-Za-z][A-Za-z0-9_]*)|(?P<num>\d+)|(?P<hex>\#[0-9A-Za-z]*)|(?P<chr>'(?:\\.|[^\\])')|"""
                   r"""(?P<str>"(?:\\.|[^"\\])*")|(?P<op>:=|<=|>=|~=|[\[\]\(\)\{\};,\+\-=<>~])""")
UNESC = {'n': '\n', 't': '\t', 'r': '\r', '\\': '\\', "'": "'", '"': '"'}


class ParseError(Exception):
    pass


def tokenize(text):
    pos = 0
    toks = []
    while pos < len(text):
        m = TOKEN.match(text, pos)
        if not m:
            raise ParseError('bad character at %d: %r' % (pos, text[pos:pos + 10]))
        pos = m.end()
        if m.lastgroup is None:
            continue
        g = m.lastgroup
        v = m.group(g)
        if g == 'id':
            toks.append(('kw', v) if v in KEYWORDS else ('id', v))
        elif g == 'num':
            toks.append(('num', int(v) % 2**32))
        elif g == 'hex':
            toks.append(('hex', int(v[1:] or '0', 16) % 2**32))
        elif g == 'chr':
            body = v[1:-1]
            toks.append(('chr', UNESC[body[1]] if body[0] == '\\' else body))
        elif g == 'str':
            body = v[1:-1]
            s = ''
            i = 0
            while i < len(body):
                if body[i] == '\\':
                    s += UNESC[body[i + 1]]
                    i += 2
                else:
                    s += body[i]
                    i += 1
            toks.append(('str', s))
        else:
            toks.append(('op', v))
    toks.append(('eof', None))
    return toks


class Parser:
    def __init__(self, text):
        self.t = tokenize(text)
        self.i = 0

    def peek(self):
        return self.t[self.i]

    def next(self):
        tok = self.t[self.i]
        self.i += 1
        return tok

    def accept(self, kind, val=None):
        tok = self.peek()
        if tok[0] == kind and (val is None or tok[1] == val):
            self.i += 1
            return True
        return False

    def expect(self, kind, val=None):
        tok = self.next()
        if tok[0] != kind or (val is not None and tok[1] != val):
            raise ParseError('expected %s %s, got %r at token %d' % (kind, val, tok, self.i))
        return tok[1]

    def program(self):
        gl = []
        while self.peek() in (('kw', 'val'), ('kw', 'var'), ('kw', 'array')):
            gl.append(self.decl())
        procs = []
        while self.peek() in (('kw', 'proc'), ('kw', 'func')):
            procs.append(self.procdecl())
        self.expect('eof')
        return dict(globals=gl, procs=procs)

    def decl(self):
        k = self.next()[1]
        name = self.expect('id')
        if k == 'val':
            self.expect('op', '=')
            e = self.expr()
            self.expect('op', ';')
            return ('val', name, e)
        if k == 'var':
            self.expect('op', ';')
            return ('var', name)
        self.expect('op', '[')
        e = self.expr()
        self.expect('op', ']')
        self.expect('op', ';')
        return ('array', name, e)

    def procdecl(self):
        kind = self.next()[1]
        name = self.expect('id')
        self.expect('op', '(')
        formals = []
        if not self.accept('op', ')'):
            while True:
                fk = self.expect('kw')
                formals.append((fk, self.expect('id')))
                if not self.accept('op', ','):
                    break
            self.expect('op', ')')
        self.expect('kw', 'is')
        locs = []
        while self.peek() in (('kw', 'val'), ('kw', 'var')):
            locs.append(self.decl())
        return dict(kind=kind, name=name, formals=formals, locals=locs, body=self.stmt())

    def stmt(self):
        tok = self.peek()
        if tok == ('kw', 'skip'):
            self.next()
            return ('skip',)
        if tok == ('kw', 'stop'):
            self.next()
            return ('stop',)
        if tok == ('kw', 'return'):
            self.next()
            return ('ret', self.expr())
        if tok == ('kw', 'if'):
            self.next()
            c = self.expr()
            self.expect('kw', 'then')
            t = self.stmt()
            self.expect('kw', 'else')
            return ('if', c, t, self.stmt())
        if tok == ('kw', 'while'):
            self.next()
            c = self.expr()
            self.expect('kw', 'do')
            return ('while', c, self.stmt())
        if tok == ('op', '{'):
            self.next()
            ss = [self.stmt()]
            while self.accept('op', ';'):
                ss.append(self.stmt())
            self.expect('op', '}')
            return ('seq', ss)
        el = self.element()
        if el[0] == 'call':
            return ('pcall', el[1], el[2])
        if el[0] == 'syscall':
            return el
        self.expect('op', ':=')
        return ('ass', el, self.expr())

    def expr(self):
        if self.accept('op', '-'):
            return ('neg', self.element())
        if self.accept('op', '~'):
            return ('not', self.element())
        el = self.element()
        tok = self.peek()
        op = None
        if tok[0] == 'op' and tok[1] in BINOPS:
            op = tok[1]
        elif tok[0] == 'kw' and tok[1] in ('and', 'or'):
            op = tok[1]
        if op is None:
            return el
        self.next()
        return ('bin', op, el, self.binrhs(op))

    def binrhs(self, op):
        el = self.element()
        tok = self.peek()
        if op in ASSOC and tok[1] == op and tok[0] in ('op', 'kw'):
            self.next()
            return ('bin', op, el, self.binrhs(op))
        return el

    def args(self):
        a = []
        if self.accept('op', ')'):
            return a
        while True:
            a.append(self.expr())
            if not self.accept('op', ','):
                break
        self.expect('op', ')')
        return a

    def element(self):
        tok = self.next()
        k, v = tok
        if k == 'id':
            if self.accept('op', '['):
                e = self.expr()
                self.expect('op', ']')
                return ('idx', v, e)
            if self.accept('op', '('):
                return ('call', v, self.args())
            return ('var', v)
        if k in ('num', 'hex'):
            if self.accept('op', '('):
                return ('syscall', v, self.args())
            return (k, v)
        if k == 'chr':
            return ('chr', v)
        if k == 'str':
            return ('str', v)
        if k == 'kw' and v in ('true', 'false'):
            return ('bool', v == 'true')
        if tok == ('op', '('):
            e = self.expr()
            self.expect('op', ')')
            return ('paren', e)
        raise ParseError('bad element %r' % (tok,))


def parse(text):
    return Parser(text).program()


def strip_parens(e):
    """AST equality modulo redundant parentheses (for the print/parse round trip)."""
    if isinstance(e, tuple):
        if e and e[0] == 'paren':
            return strip_parens(e[1])
        return tuple(strip_parens(x) for x in e)
    if isinstance(e, list):
        return [strip_parens(x) for x in e]
    if isinstance(e, dict):
        return {k: strip_parens(v) for k, v in e.items()}
    return e


def resolve_syscall_names(P):
    """The parser cannot know that `put(c, 0)` is a system call when `put` is a val: rewrite calls to val names."""
    vals = set(g[1] for g in P['globals'] if g[0] == 'val')

    def fe(e):
        k = e[0]
        if k == 'call':
            args = [fe(a) for a in e[2]]
            return ('syscall', e[1], args) if e[1] in vals else ('call', e[1], args)
        if k == 'syscall':
            return ('syscall', e[1], [fe(a) for a in e[2]])
        if k in ('neg', 'not', 'paren'):
            return (k, fe(e[1]))
        if k == 'idx':
            return ('idx', e[1], fe(e[2]))
        if k == 'bin':
            return ('bin', e[1], fe(e[2]), fe(e[3]))
        return e

    def fs(s):
        k = s[0]
        if k == 'ret':
            return ('ret', fe(s[1]))
        if k == 'if':
            return ('if', fe(s[1]), fs(s[2]), fs(s[3]))
        if k == 'while':
            return ('while', fe(s[1]), fs(s[2]))
        if k == 'seq':
            return ('seq', [fs(x) for x in s[1]])
        if k == 'ass':
            return ('ass', fe(s[1]), fe(s[2]))
        if k == 'pcall':
            args = [fe(a) for a in s[2]]
            return ('syscall', s[1], args) if s[1] in vals else ('pcall', s[1], args)
        if k == 'syscall':
            return ('syscall', s[1], [fe(a) for a in s[2]])
        return s
    for pr in P['procs']:
        lv = set(l[1] for l in pr['locals'] if l[0] == 'val')
        pr['body'] = fs(pr['body'])
    P['globals'] = [(g[0], g[1], fe(g[2])) if len(g) == 3 else g for g in P['globals']]
    return P
