"""Hypothesis binding shared by the program-level checks.

A generator is ordinary code written against a random.Random-like *choice source*;
`st.randoms(use_true_random=False)` turns every call into a Hypothesis draw, so search,
replay (`@seed`) and shrinking stay inside the library.  Each worker process is a pure
function of (VERIF_SEED, worker index, tier).
"""
import collections
import hashlib
import multiprocessing
import os
import sys
import time
import traceback

from hypothesis import HealthCheck, Phase, given, seed, settings
from hypothesis import strategies as st


class Failure(Exception):
    def __init__(self, case, why):
        Exception.__init__(self, why)
        self.case = case
        self.why = why


class Stats:
    def __init__(self):
        self.evaluations = 0
        self.discarded = collections.Counter()
        self.excluded_known = collections.Counter()
        self.classes = collections.Counter()
        self.nontrivial = set()
        self.samples = []
        self.notes = []
        self.frozen = False   # set once a failure was seen: shrinking must not pollute the counts

    def case(self, key=None, classes=(), sample=None, nontrivial=True):
        if self.frozen:
            return
        self.evaluations += 1
        if nontrivial and key is not None:
            self.nontrivial.add(hashlib.sha1(repr(key).encode()).hexdigest()[:16])
        for c in classes:
            self.classes[c] += 1
        if sample is not None and len(self.samples) < 3 and (self.evaluations % 37 == 1):
            self.samples.append(sample)

    def discard(self, reason):
        if not self.frozen:
            self.discarded[reason] += 1

    def exclude(self, fid, n=1):
        if not self.frozen:
            self.excluded_known[fid] += n

    def to_dict(self):
        return dict(evaluations=self.evaluations, discarded=dict(self.discarded), excluded_known=dict(self.excluded_known),
                    classes=dict(self.classes), nontrivial_hashes=sorted(self.nontrivial), samples=self.samples, notes=self.notes)


def search(test_fn, hyp_seed, n_examples, shrink=True, max_shrink_s=60):
    """Run `test_fn(rng, stats)` under Hypothesis. test_fn raises Failure for a violated oracle.
    Returns (stats, failure-or-None) where failure = dict(case=..., why=...) for the *shrunk* example."""
    stats = Stats()
    last = {}
    t_fail = [None]

    @seed(hyp_seed)
    @settings(max_examples=n_examples, database=None, deadline=None, derandomize=False,
              suppress_health_check=list(HealthCheck), report_multiple_bugs=False,
              phases=[Phase.generate, Phase.shrink] if shrink else [Phase.generate])
    @given(st.randoms(use_true_random=False))
    def run(rng):
        if t_fail[0] is not None and time.time() - t_fail[0] > max_shrink_s:
            # shrink budget exhausted: make the remaining shrink attempts trivially pass so that Hypothesis
            # settles on the best example found so far
            return
        old_limit = sys.getrecursionlimit()
        try:
            # Hypothesis caps the recursion limit while a test runs; the reference interpreter needs a deep stack
            sys.setrecursionlimit(max(old_limit, 1000000))
            test_fn(rng, stats)
        except Failure as f:
            stats.frozen = True
            if t_fail[0] is None:
                t_fail[0] = time.time()
            if str(f.why).startswith('hang'):
                t_fail[0] = time.time() - max_shrink_s - 1      # every further attempt would cost a full time-out: keep the example as it is
            last['case'] = f.case
            last['why'] = f.why
            raise
        finally:
            sys.setrecursionlimit(old_limit)

    try:
        run()
    except Failure:
        pass
    except Exception as e:  # Hypothesis wraps/re-raises; anything else is a harness error
        if 'case' not in last:
            stats.notes.append('worker error: ' + traceback.format_exc()[-600:])
    return stats, (dict(last) if 'case' in last else None)


def _worker(args):
    fn_module, fn_name, hyp_seed, n, extra = args
    import importlib
    mod = importlib.import_module(fn_module)
    fn = getattr(mod, fn_name)
    # deep X recursion in the reference interpreter needs a deep Python stack: run in a thread with a large one
    import threading
    sys.setrecursionlimit(1000000)
    threading.stack_size(1024 * 1024 * 1024)
    box = {}

    def work():
        box['r'] = search(lambda rng, st_: fn(rng, st_, extra), hyp_seed, n)
    t = threading.Thread(target=work)
    t.start()
    t.join()
    stats, failure = box['r']
    return stats.to_dict(), failure


def fan_out(ctx, fn_module, fn_name, n_per_worker, extra=None, workers=None, seed_offset=0):
    """Run W worker processes; merge counters into ctx; return the list of shrunk failures."""
    W = workers or min(16, os.cpu_count() or 1)
    jobs = [(fn_module, fn_name, ctx.seed * 1000 + seed_offset + w + 1, n_per_worker, extra) for w in range(W)]
    with multiprocessing.get_context('fork').Pool(W) as pool:
        results = pool.map(_worker, jobs, chunksize=1)
    failures = []
    errs = set()
    for sd, failure in results:
        for n in sd.get('notes', []):
            if n.startswith('worker error'):
                errs.add(n[-400:])
        sd['notes'] = []
        ctx.merge_worker(sd)
        if failure:
            failures.append(failure)
    for e in sorted(errs)[:3]:
        ctx.error('a Hypothesis worker stopped early: ' + e)
    return failures
