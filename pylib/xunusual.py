"""Syntactically valid but semantically unusual X programs (the structured half of C09): G-X's discipline is
switched off one rule at a time."""
from . import xgen, xlang


def _rewrite_expr(e, f):
    k = e[0]
    r = f(e)
    if r is not None:
        return r
    if k in ('neg', 'not', 'paren'):
        return (k, _rewrite_expr(e[1], f))
    if k == 'bin':
        return ('bin', e[1], _rewrite_expr(e[2], f), _rewrite_expr(e[3], f))
    if k == 'idx':
        return ('idx', e[1], _rewrite_expr(e[2], f))
    if k in ('call', 'syscall'):
        return (k, e[1], [_rewrite_expr(a, f) for a in e[2]])
    return e


def _rewrite_stmt(s, fe, fs):
    r = fs(s)
    if r is not None:
        return r
    k = s[0]
    if k == 'ret':
        return ('ret', _rewrite_expr(s[1], fe))
    if k == 'if':
        return ('if', _rewrite_expr(s[1], fe), _rewrite_stmt(s[2], fe, fs), _rewrite_stmt(s[3], fe, fs))
    if k == 'while':
        return ('while', _rewrite_expr(s[1], fe), _rewrite_stmt(s[2], fe, fs))
    if k == 'seq':
        return ('seq', [_rewrite_stmt(x, fe, fs) for x in s[1]])
    if k == 'ass':
        return ('ass', _rewrite_expr(s[1], fe), _rewrite_expr(s[2], fe))
    if k in ('pcall', 'syscall'):
        return (k, s[1], [_rewrite_expr(a, fe) for a in s[2]])
    return s


MUTATIONS = ['undeclared', 'redeclare-global', 'redeclare-proc', 'array-as-scalar', 'scalar-as-array', 'call-a-variable', 'assign-to-val',
             'arity-drop', 'arity-add', 'proc-formal', 'func-as-statement', 'proc-in-expression', 'val-from-var', 'val-forward', 'empty-string',
             'long-string', 'array-len-0', 'array-len-negative', 'array-len-huge', 'big-literal', 'empty-file', 'no-main', 'label-like-names',
             'deep-parens', 'deep-if', 'long-seq', 'bad-syscall', 'syscall-no-args', 'syscall-many-args', 'return-in-proc', 'no-return',
             'high-bytes', 'local-array', 'duplicate-formal', 'main-with-formals', 'recursive-val', 'val-cycle', 'val-cycle-local',
             'array-len-cycle', 'val-chain-long', 'comment-eof', 'string-eof', 'char-eof', 'token-eof', 'proc-as-variable']


def gen_source(r, want_mutation=None):
    P, inp, files = xgen.gen_program(r, 'quick')
    n = r.randint(1, 3)
    muts = [want_mutation] if want_mutation else [r.choice(MUTATIONS) for _ in range(n)]
    text = None
    for m in muts:
        P, text = apply(r, P, m, text)
    return text if text is not None else xlang.p_prog(P)


def apply(r, P, m, text):
    procs = P['procs']
    gl = P['globals']
    hit = [0]
    p = 0.3
    local_only = r.random() < 0.6      # assign-to-val: only the local val is a target (the source stays acceptable)

    def pick():
        hit[0] += 1
        return r.random() < p or hit[0] == 1

    if m == 'undeclared':
        fe = lambda e: ('var', 'nosuchname') if e[0] == 'var' and pick() else None
    elif m == 'array-as-scalar':
        arrs = [g[1] for g in gl if g[0] == 'array'] or ['A9']
        fe = lambda e: ('var', r.choice(arrs)) if e[0] in ('num', 'hex') and pick() else None
    elif m == 'scalar-as-array':
        fe = lambda e: ('idx', e[1], ('num', 0)) if e[0] == 'var' and pick() else None
    elif m == 'call-a-variable':
        fe = lambda e: ('call', e[1], []) if e[0] == 'var' and pick() else None
    elif m == 'arity-drop':
        fe = lambda e: (e[0], e[1], e[2][:-1]) if e[0] == 'call' and e[2] and pick() else None
    elif m == 'arity-add':
        fe = lambda e: (e[0], e[1], e[2] + [('num', 1)] * r.randint(1, 12)) if e[0] == 'call' and pick() else None
    elif m == 'proc-in-expression':
        pn = [q['name'] for q in procs if q['kind'] == 'proc']
        fe = lambda e: ('call', r.choice(pn), []) if pn and e[0] in ('num', 'hex') and pick() else None
    elif m == 'big-literal':
        fe = lambda e: r.choice([('num', r.choice([2**32, 2**40, 10**19, 10**30, 2**31])), ('hex', r.choice([2**31, 2**32 - 1, 2**32, 2**36, 2**64 - 1, 2**64, 16**20]))]) if e[0] in ('num', 'hex') and pick() else None
    elif m == 'empty-string':
        fe = lambda e: ('str', '') if e[0] == 'str' and pick() else None
    elif m == 'long-string':
        fe = lambda e: ('str', 'x' * r.choice([255, 256, 300, 1000])) if e[0] == 'str' and pick() else None
    elif m == 'bad-syscall':
        fe = lambda e: ('syscall', r.choice([3, 4, 255, 2**31, 2**32 - 1]), e[2]) if e[0] == 'syscall' and pick() else None
    elif m == 'deep-parens':
        d = r.choice([20, 100, 200])

        def fe(e):
            if e[0] in ('num', 'hex') and pick():
                x = e
                for _ in range(d):
                    x = ('paren', x)
                return x
            return None
    elif m == 'proc-as-variable':
        # the name of a procedure or function where a variable is expected: as a value, as a subscripted array, as an actual
        pn = [q['name'] for q in procs if q['name'] != 'main'] or ['main']
        fe = lambda e: (('var', r.choice(pn)) if r.random() < 0.6 else ('idx', r.choice(pn), ('num', r.randint(0, 2)))) if e[0] in ('var', 'num') and pick() else None
    else:
        fe = lambda e: None

    def fs(s):
        if m == 'func-as-statement' and s[0] == 'pcall' and pick():
            fn = [q['name'] for q in procs if q['kind'] == 'func']
            return ('pcall', r.choice(fn), s[2]) if fn else None
        if m == 'assign-to-val' and s[0] == 'ass' and s[1][0] == 'var' and pick():
            vals = ['lv9'] if local_only else [g[1] for g in gl if g[0] == 'val'] + [q['name'] for q in procs] + ['lv9', 'lv9']
            return ('ass', ('var', r.choice(vals)), s[2]) if vals else None
        if m == 'bad-syscall' and s[0] == 'syscall' and pick():
            return ('syscall', r.choice([3, 4, 255, 2**31]), s[2])
        if m == 'syscall-no-args' and s[0] == 'syscall' and pick():
            return ('syscall', s[1], [])
        if m == 'syscall-many-args' and s[0] == 'syscall' and pick():
            return ('syscall', s[1], s[2] + [('num', 7)] * r.randint(1, 10))
        if m == 'return-in-proc' and s[0] in ('skip', 'ass') and pick():
            return ('ret', ('num', 1))
        if m == 'no-return' and s[0] == 'ret' and pick():
            return ('skip',)
        if m == 'deep-if' and s[0] in ('skip', 'ass') and pick():
            x = s
            for _ in range(r.choice([30, 100])):
                x = ('if', ('bool', True), x, ('skip',))
            return x
        if m == 'long-seq' and s[0] in ('skip', 'ass') and pick():
            return ('seq', [s] * r.choice([100, 400]))
        return None

    P = dict(globals=list(gl), procs=[dict(q) for q in procs])
    for q in P['procs']:
        q['body'] = _rewrite_stmt(q['body'], fe, fs)
        if m == 'assign-to-val':
            # every procedure gets a local val that the rewritten assignments may target
            q['locals'] = list(q['locals']) + [('val', 'lv9', ('num', 5))]
    if m == 'redeclare-global' and P['globals']:
        g = r.choice(P['globals'])
        P['globals'].insert(r.randint(0, len(P['globals'])), g if r.random() < 0.5 else ('var', g[1]))
    elif m == 'redeclare-proc':
        q = r.choice(P['procs'])
        P['procs'].insert(r.randint(0, len(P['procs'])), dict(q, kind=r.choice(['proc', 'func'])))
    elif m == 'proc-formal':
        q = r.choice(P['procs'])
        if q['name'] != 'main':
            q['formals'] = list(q['formals']) + [(r.choice(['proc', 'func']), 'pf')]
            q['body'] = ('seq', [('pcall', 'pf', []), q['body']])
    elif m == 'val-from-var':
        vs = [g[1] for g in P['globals'] if g[0] == 'var'] or ['zz']
        P['globals'].append(('val', 'vv', ('var', r.choice(vs))))
        P['procs'][0]['body'] = ('seq', [('syscall', 1, [('var', 'vv'), ('num', 0)]), P['procs'][0]['body']])
    elif m == 'val-forward':
        P['globals'] = [('val', 'fw1', ('bin', '+', ('var', 'fw2'), ('num', 1))), ('val', 'fw2', ('num', 3))] + P['globals']
    elif m in ('val-cycle', 'val-cycle-local'):
        # definitions that refer to each other in a cycle of length 2..4, in either textual order
        n = r.randint(2, 4)
        names = ['cy%d' % i for i in range(n)]
        decls = []
        for i in range(n):
            nxt = ('var', names[(i + 1) % n])
            decls.append(('val', names[i], nxt if r.random() < 0.5 else ('bin', r.choice('+-'), nxt, ('num', r.randint(0, 3)))))
        r.shuffle(decls)
        if m == 'val-cycle':
            P['globals'] = decls + P['globals'] if r.random() < 0.5 else P['globals'] + decls
        else:
            q = r.choice(P['procs'])
            q['locals'] = list(q['locals']) + decls
        tgt = P['procs'][0]
        tgt['body'] = ('seq', [('syscall', 1, [('var', names[0]), ('num', 0)]), tgt['body']]) if m == 'val-cycle' else tgt['body']
    elif m == 'array-len-cycle':
        P['globals'] = [('val', 'al1', ('var', 'al2')), ('val', 'al2', ('bin', '+', ('var', 'al1'), ('num', 1))), ('array', 'ALC', ('var', 'al1'))] + P['globals']
    elif m == 'val-chain-long':
        k = r.choice([50, 300, 2000])
        ch = [('val', 'ch0', ('num', 1))] + [('val', 'ch%d' % i, ('bin', '+', ('var', 'ch%d' % (i - 1)), ('num', 1))) for i in range(1, k)]
        if r.random() < 0.5:
            ch.reverse()
        P['globals'] = ch + P['globals']
    elif m == 'recursive-val':
        P['globals'] = [('val', 'rv', ('bin', '+', ('var', 'rv'), ('num', 1)))] + P['globals']
    elif m in ('array-len-0', 'array-len-negative', 'array-len-huge'):
        ln = {'array-len-0': ('num', 0), 'array-len-negative': ('neg', ('num', r.choice([1, 5, 2**31 - 1]))), 'array-len-huge': ('num', r.choice([199990, 200000, 200001, 2**31 - 1, 2**32 - 1]))}[m]
        P['globals'].append(('array', 'AX', ln))
        P['procs'][0]['body'] = ('seq', [('ass', ('idx', 'AX', ('num', 0)), ('num', 1)), P['procs'][0]['body']])
    elif m == 'no-main':
        for q in P['procs']:
            if q['name'] == 'main':
                q['name'] = 'mainx'
    elif m == 'label-like-names':
        nm = r.choice(['start', 'lab0', 'lab1', '_exit' if False else 'exit', 'main'])
        q = r.choice(P['procs'])
        if q['name'] != 'main':
            q['name'] = nm
    elif m == 'local-array':
        q = r.choice(P['procs'])
        q['locals'] = list(q['locals']) + [('array', 'la', ('num', 3))]
    elif m == 'duplicate-formal':
        q = r.choice(P['procs'])
        if q['formals'] and q['name'] != 'main':
            q['formals'] = list(q['formals']) + [q['formals'][0]]
    elif m == 'main-with-formals':
        for q in P['procs']:
            if q['name'] == 'main':
                q['formals'] = [('val', 'argc'), ('array', 'argv')]
    if m in ('comment-eof', 'string-eof', 'char-eof', 'token-eof'):
        t = xlang.p_prog(P).rstrip('\n')
        tail = {'comment-eof': r.choice([' | trailing comment without newline', '|', '\n|x']), 'string-eof': r.choice(['\nproc q8() is q7("abc', ' "']),
                'char-eof': r.choice(["\nproc q8() is 0('", " 'a", " '\\"]), 'token-eof': r.choice([' :', ' ~', ' <', ' #', ' proc', ' {', ' -'])}[m]
        return P, t + tail
    if m == 'empty-file':
        return P, r.choice(['', '\n', '| just a comment', '   '])
    if m == 'high-bytes':
        # bytes >= 0x80 in a string, a character constant, a comment or a name.  0xFF is the lexer's end-of-file sentinel: a source
        # containing it is cut short there, so it is included only sometimes (otherwise nothing after the lexer ever sees the rest)
        t = xlang.p_prog(P)
        hb = ''.join(chr(r.choice([0x80, 0xE9, 0xFE, 0xA0, 0xC3, 0x61, 0x7F])) for _ in range(r.randint(1, 9)))
        if r.random() < 0.15:
            hb += '\xff'
        where = r.randrange(4)
        if where == 0:
            return P, t.replace('proc main', 'proc q9(array s) is 1(s[0], 0)\nproc main', 1) + '\nproc zz() is q9("' + hb + '")\n'
        if where == 1:
            return P, t + "\nproc zz() is 1('" + hb[0] + "', 0)\n"
        if where == 2:
            return P, t.replace('\n', ' | ' + hb + '\n', 1)
        return P, t + '\nproc n' + hb + '() is skip\n'
    if m == 'local-array':
        t = xlang.p_prog(P)
        return P, t
    return P, None
