"""C11 - compilation and assembly are deterministic functions of the source.

Sources the tools accept: G-X programs, G-ASM programs, and "unusual" X programs (where indeterminate
members would flow into the output).  Self-comparison, so the oracle is byte equality of binary, -S /
--instrs listing and --tree:
 (i)  in-process (xtool det / asmtool --det): the same source under heap fill 0x00, 0xA5, 0xFF (replaced
      global operator new), after compiling an unrelated source in the same process, and plain;
 (ii) the real executables under {ASLR on, setarch -R} x {environment +0, +3 KB} x MALLOC_PERTURB_ {unset,
      37, 90, 255}.
"""
import json
import os
import subprocess

from .. import asmgen, build, driver, hyp, toolchain, xgen, xlang

RULE = ('sources: G-X programs, G-ASM programs (random/tour), unusual X programs (C09\'s structured generator, accepted ones) x in-process heap '
        'fills and a preceding compilation x host configurations of the real executables. Non-trivial = accepted source with >= 1 procedure / '
        '>= 1 label and a binary of >= 40 bytes; distinct by source hash.')
OTHER_X = 'val put = 1;\nvar q;\narray z[3];\nfunc h(val a, array b) is return a + b[0]\nproc main() is { q := 7; z[0] := q; put(h(1, z), 0); 0(3) }\n'
OTHER_S = 'BR s\nDATA 9\nt\nDATA 5\ns\nLDAM t\nLDAC 300\nBR s\n'


def inproc(tool, src_path, other_path, scratch):
    if tool == 'x':
        cmd = [build.exe('xtool'), 'det', src_path, '--other', other_path]
    else:
        cmd = [build.exe('asmtool'), src_path, '--det', '--before', other_path, '--out', os.path.join(scratch, 'det.bin')]
    r = subprocess.run(cmd, stdout=subprocess.PIPE, stderr=subprocess.PIPE, env=driver.san_env(), cwd=scratch, timeout=120)
    if r.returncode != 0:
        return None, 'crash: ' + r.stderr.decode(errors='replace')[-400:]
    return json.loads(r.stdout.decode()), ''


def exe_outputs(tool, src_path, scratch):
    """[(config, outputs-tuple)] for the real executable under host configurations."""
    res = []
    n = 0
    for aslr_off in (False, True):
        for pad in (0, 3000):
            for perturb in (None, '37', '90', '255'):
                # a full product is 16 runs x 3 outputs; sample it deterministically
                n += 1
                if n % 3 != 1 and not (aslr_off and pad and perturb == '255'):
                    continue
                env = dict(os.environ)
                if pad:
                    env['VERIF_PADDING'] = 'y' * pad
                if perturb:
                    env['MALLOC_PERTURB_'] = perturb
                pre = ['setarch', '-R'] if aslr_off else []
                d = os.path.join(scratch, 'cfg%d' % n)
                os.makedirs(d, exist_ok=True)
                outs = []
                if tool == 'x':
                    xc = toolchain.tool('xcmp')
                    for extra in (['-S'], ['--tree'], ['--memory-info', '-S']):
                        r = subprocess.run(pre + [xc, src_path] + extra, stdout=subprocess.PIPE, stderr=subprocess.PIPE, env=env, cwd=d, timeout=60)
                        outs.append((r.returncode, r.stdout, r.stderr))
                    r = subprocess.run(pre + [xc, src_path, '-o', 'o.bin'], stdout=subprocess.PIPE, stderr=subprocess.PIPE, env=env, cwd=d, timeout=60)
                    b = b''
                    for cand in ('o.bin', 'a.out'):
                        if os.path.exists(os.path.join(d, cand)):
                            b = open(os.path.join(d, cand), 'rb').read()
                            break
                    outs.append((r.returncode, b, r.stderr))
                else:
                    ha = toolchain.tool('hexasm')
                    r = subprocess.run(pre + [ha, src_path, '--instrs'], stdout=subprocess.PIPE, stderr=subprocess.PIPE, env=env, cwd=d, timeout=60)
                    outs.append((r.returncode, r.stdout, r.stderr))
                    r = subprocess.run(pre + [ha, src_path, '-o', 'o.bin'], stdout=subprocess.PIPE, stderr=subprocess.PIPE, env=env, cwd=d, timeout=60)
                    b = open(os.path.join(d, 'o.bin'), 'rb').read() if os.path.exists(os.path.join(d, 'o.bin')) else b''
                    outs.append((r.returncode, b, r.stderr))
                res.append(('aslr_off=%d pad=%d perturb=%s' % (aslr_off, pad, perturb), outs))
    res.append(('other environment, working directory and a non-seekable output file', other_environment(tool, src_path, scratch, len(res[0][1]))))
    return res


OTHER_ENV = {'LC_ALL': 'C.UTF-8', 'LANG': 'tr_TR.UTF-8', 'LANGUAGE': 'tr', 'TZ': 'Pacific/Kiritimati', 'HOME': '/nonexistent', 'COLUMNS': '20', 'TERM': 'dumb',
             'TMPDIR': '/nonexistent', 'POSIXLY_CORRECT': '1', 'MALLOC_ARENA_MAX': '1'}


def other_environment(tool, src_path, scratch, nouts):
    """The same source text under another name in a deep working directory, with locale/time-zone/home variables changed, listings
    into a pipe as before and the binary into a FIFO (not seekable).  Standard error is not compared here (it may name the file)."""
    import select
    import shutil
    d = os.path.join(scratch, 'deep', 'a' * 40, 'b b', 'c' * 60)
    os.makedirs(d, exist_ok=True)
    ext = os.path.splitext(src_path)[1]
    local = 'renamed-source-file-with-a-much-longer-name' + ext
    shutil.copy(src_path, os.path.join(d, local))
    env = dict(os.environ)
    env.update(OTHER_ENV)
    exe = toolchain.tool('xcmp' if tool == 'x' else 'hexasm')
    outs = []
    listings = (['-S'], ['--tree'], ['--memory-info', '-S']) if tool == 'x' else (['--instrs'],)
    for extra in listings:
        r = subprocess.run([exe, local] + extra, stdout=subprocess.PIPE, stderr=subprocess.PIPE, env=env, cwd=d, timeout=60)
        outs.append((r.returncode, r.stdout, None))
    fifo = os.path.join(d, 'out.fifo')
    os.mkfifo(fifo)
    fd = os.open(fifo, os.O_RDONLY | os.O_NONBLOCK)
    buf = b''
    try:
        with open(os.path.join(d, 'stderr.txt'), 'wb') as ef:
            pr = subprocess.Popen([exe, local, '-o', 'out.fifo'], stdout=subprocess.DEVNULL, stderr=ef, env=env, cwd=d)
            import time
            t0 = time.time()
            while True:
                done = pr.poll() is not None
                got = False
                while True:
                    try:
                        chunk = os.read(fd, 1 << 16)
                    except BlockingIOError:
                        chunk = b''
                    if not chunk:
                        break
                    buf += chunk
                    got = True
                if done:
                    break
                if time.time() - t0 > 60 * driver.TIMEOUT_SCALE:
                    pr.kill()
                    pr.wait()
                    break
                if not got:
                    select.select([fd], [], [], 0.01)
                    time.sleep(0.002)
    finally:
        os.close(fd)
    outs.append((pr.returncode, buf, None))
    return outs


@driver.hang_is_failure(lambda why: ('fail', why, {}))
def check(tool, text, scratch, with_exe):
    ext = 'x' if tool == 'x' else 'S'
    sp = os.path.join(scratch, 'p.' + ext)
    open(sp, 'w', encoding='latin-1').write(text)
    op = os.path.join(scratch, 'other.' + ext)
    open(op, 'w').write(OTHER_X if tool == 'x' else OTHER_S)
    o, err = inproc(tool, sp, op, scratch)
    if o is None:
        return 'crashed', err, {}
    if not o['deterministic']:
        return 'fail', 'in-process: %s differs between runs of the same source (accepted=%s)' % (o['what'], o['accepted']), o
    if with_exe:
        res = exe_outputs(tool, sp, scratch)
        names = ['-S listing', '--tree', '--memory-info report', 'binary'] if tool == 'x' else ['--instrs listing', 'binary']
        for cfg, outs in res[1:]:
            for nme, a, b in zip(names, outs, res[0][1]):
                if a[2] is None:
                    b = (b[0], b[1], None)
                if a != b:
                    return 'fail', 'executable: %s under [%s] differs from [%s]' % (nme, cfg, res[0][0]), o
    return 'ok', '', o


def gen_case(rng, stats, extra):
    x = rng.random()
    if x < 0.45:
        P, inp, files = xgen.gen_program(rng, extra['tier'])
        tool, text, fam = 'x', xlang.p_prog(P), 'x'
    elif x < 0.6:
        try:
            from .. import xunusual
            if rng.random() < 0.3:
                # symbols that get a location only through an unusual statement: assignments to a procedure-local val
                tool, text, fam = 'x', xunusual.gen_source(rng, 'assign-to-val'), 'x-assign-to-local-val'
            else:
                tool, text, fam = 'x', xunusual.gen_source(rng), 'x-unusual'
        except ImportError:
            P, inp, files = xgen.gen_program(rng, extra['tier'])
            tool, text, fam = 'x', xlang.p_prog(P), 'x'
    else:
        if rng.random() < 0.3:
            items, _ = asmgen.gen_tour(rng)
        else:
            items, _ = asmgen.fix_absolute_alignment(asmgen.gen_random_program(rng), rng)
        tool, text, fam = 'asm', asmgen.render(items, rng.randint(0, 10) if rng.random() < 0.3 else 0), 'asm'
    with_exe = rng.random() < 0.12
    with driver.Scratch('c11') as scratch:
        verdict, why, o = check(tool, text, scratch, with_exe)
    if verdict == 'crashed':
        stats.discard('tool-crashed (C09/C10 own crashes)')
        return
    accepted = bool(o.get('accepted'))
    nt = accepted and o.get('binary_bytes', 0) >= 40
    stats.case(key=text, classes=['family:' + fam, 'accepted:%d' % accepted, 'with-executables:%d' % with_exe, 'verdict:' + verdict], nontrivial=nt,
               sample={'family': fam, 'source': text[:500], 'accepted': accepted})
    if verdict == 'fail':
        raise hyp.Failure(dict(kind='c11', tool=tool, source=text, with_exe=with_exe), why)


def replay_case(case):
    with driver.Scratch('c11r') as s:
        v, why, _ = check(case['tool'], case['source'], s, True)
    return v, why


def report(ctx, case, why):
    res = [replay_case(case) for _ in range(3)]
    n = sum(1 for v, _ in res if v == 'fail')
    if n == 0:
        ctx.flaky.append({'why': why})
        return
    ctx.violation(case, [w for v, w in res if v == 'fail'][-1] + '\n--- source ---\n' + case['source'][:1500])


def run(ctx):
    ctx.rule = RULE
    ctx.assumptions = ['heap contents are planted through a replaced global operator new (in-process) and MALLOC_PERTURB_ (executables)',
                       'a source that the tool rejects must be rejected with the same diagnostic every time']
    build.build_many(['xtool', 'asmtool', 'tool-xcmp', 'tool-hexasm'])
    quick = ctx.tier == 'quick'
    for path in driver.regress_files('C11'):
        case = driver.load_json(path)
        v, why = replay_case(case)
        ctx.evaluations += 1
        if v == 'fail':
            ctx.violation(case, 'regression corpus %s: %s' % (os.path.basename(path), why))
    failures = hyp.fan_out(ctx, 'pylib.props.c11', 'gen_case', 300 if quick else 8000, extra={'tier': ctx.tier})
    seen = set()
    for f in failures:
        c = f['why'][:30]
        if c not in seen:
            seen.add(c)
            report(ctx, f['case'], f['why'])
    ctx.min_nontrivial = 150


def replay(path):
    case = driver.load_json(path)
    build.build_many(['xtool', 'asmtool', 'tool-xcmp', 'tool-hexasm'])
    v, why = replay_case(case)
    print('replay %s: %s %s' % (path, v, why[:400]))
    if v == 'fail':
        print('VIOLATION property=C11 replay=%s' % path)
        return 1
    return 0
