"""C07 - compile-time evaluation agrees with run-time evaluation.

A generated expression tree over X's operators gets a 32-bit value for every leaf and a *mask* saying
which leaves are compile-time (literal or global val) and which are run-time (global variables assigned
in main before use - ConstProp does not follow assignments).  Three programs per case: all-constant (K),
the generated mix (M), all-run-time (R), each in a generated context (argument of exit, right-hand side,
call actual, return value, subscript, if/while condition).  Oracle: K, M and R show the same exit value
and output (metamorphic), and that value equals the tree evaluated in Python with two's-complement
wrap-around for + - and unary -, and x < y as the sign of the wrapped difference x - y (the other relational
operators through it, as xcmp rewrites them): exact whenever the difference is representable, and the run-time
behaviour - which the property takes as the reference - when it is not.
"""
import os

from .. import build, driver, hyp, xcase, xlang
from ..xlang import wrap32

RULE = ('expression trees (depth <= 5, all ten binary operators, unary - and ~, boolean-typed operands for and/or/~, associative chains) x leaf '
        'values from a boundary-heavy distribution (0, +/-1, +/-2, +/-65535..65537, INT_MAX, INT_MIN, pool values, uniform) x masks (each leaf '
        'constant or run-time; one whole sub-tree forced constant) x 7 contexts; three programs per case. Non-trivial = mixed mask, '
        'or a fold that wraps around, or a relational operator whose operand difference wraps around, or a constant outside +/-65535 (constant pool); distinct by hash of (tree, values, mask, context).')

VALUES = [0, 1, -1, 2, -2, 3, 15, 16, 255, 256, 65535, 65536, 65537, -65535, -65536, -65537, 2**31 - 1, -2**31, 2**31 - 2, -2**31 + 1]
CONTEXTS = ['exit', 'rhs', 'actual', 'return', 'subscript', 'if', 'while']


class Tree:
    """op in leaf + - neg = ~= < <= > >= and or not ; typ int|bool"""
    __slots__ = ('op', 'kids', 'typ', 'idx')

    def __init__(self, op, kids, typ, idx=None):
        self.op, self.kids, self.typ, self.idx = op, kids, typ, idx


def gen_tree(r, d, typ, leaves):
    if typ == 'bool':
        x = r.random()
        if d <= 0 or x < 0.1:
            leaves.append('bool')
            return Tree('leaf', [], 'bool', len(leaves) - 1)
        if x < 0.6:
            op = r.choice(['=', '<', '~=', '<=', '>', '>='])
            if r.random() < 0.25:
                # X is untyped: an integer may be compared with true/false (a boolean leaf) directly
                kids = [gen_tree(r, d - 1, 'int', leaves), gen_tree(r, 0, 'bool', leaves)]
                if r.random() < 0.5:
                    kids.reverse()
                return Tree(op, kids, 'bool')
            return Tree(op, [gen_tree(r, d - 1, 'int', leaves), gen_tree(r, d - 1, 'int', leaves)], 'bool')
        if x < 0.85:
            op = r.choice(['and', 'or'])
            n = r.randint(2, 3)
            ks = [gen_tree(r, d - 1, 'bool', leaves) for _ in range(n)]
            t = ks[-1]
            for k in reversed(ks[:-1]):
                t = Tree(op, [k, t], 'bool')
            return t
        return Tree('not', [gen_tree(r, d - 1, 'bool', leaves)], 'bool')
    x = r.random()
    if d <= 0 or x < 0.3:
        leaves.append('int')
        return Tree('leaf', [], 'int', len(leaves) - 1)
    if x < 0.75:
        op = r.choice(['+', '-', '+'])
        if op == '+' and r.random() < 0.25:
            ks = [gen_tree(r, d - 1, 'int', leaves) for _ in range(r.randint(3, 4))]
            t = ks[-1]
            for k in reversed(ks[:-1]):
                t = Tree('+', [k, t], 'int')
            return t
        return Tree(op, [gen_tree(r, d - 1, 'int', leaves), gen_tree(r, d - 1, 'int', leaves)], 'int')
    if x < 0.85:
        return Tree('neg', [gen_tree(r, d - 1, 'int', leaves)], 'int')
    return gen_tree(r, d - 1, 'bool', leaves)      # a boolean used as an integer (true = 1)


def evaluate(t, vals):
    """(value, wrapped?, overflowing-comparison?)"""
    if t.op == 'leaf':
        return vals[t.idx], False, False
    ks = [evaluate(k, vals) for k in t.kids]
    wr = any(k[1] for k in ks)
    oc = any(k[2] for k in ks)
    a = ks[0][0]
    b = ks[1][0] if len(ks) > 1 else None
    if t.op == '+':
        v = a + b
        return wrap32(v), wr or v != wrap32(v), oc
    if t.op == '-':
        v = a - b
        return wrap32(v), wr or v != wrap32(v), oc
    if t.op == 'neg':
        v = -a
        return wrap32(v), wr or v != wrap32(v), oc
    if t.op == 'not':
        return int(a == 0), wr, oc
    if t.op == 'and':
        return (0 if a == 0 else int(b != 0)), wr, oc
    if t.op == 'or':
        return (1 if a != 0 else int(b != 0)), wr, oc
    if t.op == '=':
        return int(a == b), wr, oc
    if t.op == '~=':
        return int(a != b), wr, oc
    d = a - b
    oc = oc or d != wrap32(d) or d == -2**31       # either difference (a-b or b-a) overflows
    # x < y is the sign of the wrapped difference x - y (what the generated code computes; exact whenever the difference is
    # representable); the other three are defined through it exactly as xcmp rewrites them
    ls = lambda x, y: int(wrap32(x - y) < 0)
    if t.op == '<':
        return ls(a, b), wr, oc
    if t.op == '<=':
        return 1 - ls(b, a), wr, oc
    if t.op == '>':
        return ls(b, a), wr, oc
    return 1 - ls(a, b), wr, oc


def has_cmp_overflow_somewhere(t, vals):
    return evaluate(t, vals)[2]


def to_ast(t, mask, names):
    """X expression; leaf i is a literal/val when mask[i] else the global variable names[i]."""
    if t.op == 'leaf':
        return names[t.idx] if not mask[t.idx] else ('CONST', t.idx)
    if t.op == 'neg':
        return ('neg', to_ast(t.kids[0], mask, names))
    if t.op == 'not':
        return ('not', to_ast(t.kids[0], mask, names))
    return ('bin', t.op, to_ast(t.kids[0], mask, names), to_ast(t.kids[1], mask, names))


def lit32(v):
    if v < 0:
        return ('hex', v % 2**32) if v == -2**31 else ('neg', ('num', -v))
    return ('num', v)


def subst_const(e, vals, spell):
    """Replace ('CONST', i) by a literal or a val name."""
    if e[0] == 'CONST':
        i = e[1]
        return ('var', 'k%d' % i) if spell[i] else (('bool', bool(vals[i])) if spell[i] is None else lit32(vals[i]))
    if e[0] in ('neg', 'not'):
        return (e[0], subst_const(e[1], vals, spell))
    if e[0] == 'bin':
        return ('bin', e[1], subst_const(e[2], vals, spell), subst_const(e[3], vals, spell))
    return e


def build_program(t, vals, mask, spell, ctx):
    n = len(vals)
    names = [('var', 'v%d' % i) for i in range(n)]
    e = subst_const(to_ast(t, mask, names), vals, spell)
    gl = []
    for i in range(n):
        if mask[i] and spell[i]:
            if (vals[i] + i) % 3 == 0:
                # a chain of abbreviations: val j = <literal>; val k = j   (or j + 0 / j - 0)
                gl.append(('val', 'j%d' % i, lit32(vals[i])))
                gl.append(('val', 'k%d' % i, [('var', 'j%d' % i), ('bin', '+', ('var', 'j%d' % i), ('num', 0)), ('bin', '-', ('var', 'j%d' % i), ('num', 0))][(vals[i] // 3) % 3]))
            else:
                gl.append(('val', 'k%d' % i, lit32(vals[i])))
    gl += [('var', 'v%d' % i) for i in range(n) if not mask[i]]
    init = [('ass', ('var', 'v%d' % i), lit32(vals[i])) for i in range(n) if not mask[i]]
    procs = []
    if ctx == 'exit':
        body = init + [('syscall', 0, [e])]
    elif ctx == 'rhs':
        body = init + [('ass', ('var', 'x'), e), ('syscall', 1, [('var', 'x'), ('num', 0)]), ('syscall', 0, [('var', 'x')])]
    elif ctx == 'actual':
        procs.append(dict(kind='func', name='id', formals=[('val', 'p'), ('val', 'q')], locals=[], body=('ret', ('bin', '-', ('var', 'p'), ('var', 'q')))))
        body = init + [('syscall', 0, [('call', 'id', [e, ('num', 0)])])]
    elif ctx == 'return':
        procs.append(dict(kind='func', name='f', formals=[], locals=[], body=('ret', e)))
        body = init + [('syscall', 0, [('call', 'f', [])])]
    elif ctx == 'subscript':
        gl.append(('array', 'T', ('num', 2)))
        body = init + [('ass', ('idx', 'T', ('num', 0)), ('num', 40)), ('ass', ('idx', 'T', ('num', 1)), ('num', 41)), ('syscall', 0, [('idx', 'T', e)])]
    elif ctx == 'if':
        body = init + [('if', e, ('syscall', 0, [('num', 1)]), ('syscall', 0, [('num', 0)]))]
    else:
        body = init + [('ass', ('var', 'x'), ('num', 0)),
                       ('while', ('bin', 'and', e, ('bin', '<', ('var', 'x'), ('num', 3))), ('ass', ('var', 'x'), ('bin', '+', ('var', 'x'), ('num', 1)))),
                       ('syscall', 0, [('var', 'x')])]
    procs.append(dict(kind='proc', name='main', formals=[], locals=[('var', 'x')], body=('seq', body)))
    return dict(globals=gl, procs=procs)


def expected_exit(v, ctx):
    if ctx in ('exit', 'rhs', 'actual', 'return'):
        return v & 0xFFFFFFFF
    if ctx == 'subscript':
        return 40 + v
    if ctx == 'if':
        return 1 if v else 0
    return 3 if v else 0


def run_variant(P, scratch):
    src = xlang.p_prog(P)
    st, res, err = xcase.run_xtool(src, b'', {}, scratch, max_cycles=200000)
    if st != 'ok':
        return None, 'crash: ' + (xcase.crash_signature(err) if st == 'crash' else 'timeout'), src
    if not res['compiled']:
        return None, 'rejected: %s %s' % (res['err_type'], res['err_what']), src
    if res['ref_status'] != 'exited' or not res.get('sim_ran') or res['sim_error'] or res['sim_still_running']:
        return None, 'run: ref=%s sim_error=%s' % (res['ref_status'], res.get('sim_error')), src
    if res['ref_exit'] != res['sim_exit'] or res['ref_out'] != res['sim_out']:
        return None, 'run: hexsim and ISA reference disagree', src
    return (res['sim_exit'], res['sim_out']), '', src


def check(case, scratch):
    """case: dict(tree, vals, mask, spell, ctx). Returns (verdict, why, sources)."""
    t = case['tree']
    vals, mask, spell, ctx = case['vals'], case['mask'], case['spell'], case['ctx']
    v, wrapped, cmpovf = evaluate(t, vals)
    exp = expected_exit(v, ctx)
    n = len(vals)
    variants = [('K', [True] * n), ('M', mask), ('R', [False] * n)]
    results = []
    srcs = {}
    for name, m in variants:
        P = build_program(t, vals, m, spell, ctx)
        r, why, src = run_variant(P, scratch)
        srcs[name] = src
        if r is None:
            return 'fail', '%s variant: %s' % (name, why), srcs
        results.append((name, r))
    for name, r in results:
        if r[0] != exp:
            others = ', '.join('%s=%d' % (n2, r2[0]) for n2, r2 in results)
            return 'fail', 'value: %s variant exits with %d, the expression evaluates to %d (%s) in context %s' % (name, r[0], exp, others, ctx), srcs
    if len(set(r for _, r in results)) != 1:
        return 'fail', 'value: variants disagree: ' + ', '.join('%s=%r' % (n2, r2) for n2, r2 in results), srcs
    return 'ok', '', srcs


def tree_to_list(t):
    return [t.op, [tree_to_list(k) for k in t.kids], t.typ, t.idx]


def tree_from_list(l):
    return Tree(l[0], [tree_from_list(k) for k in l[1]], l[2], l[3])


def gen_case(rng, stats, extra):
    r = rng
    leaves = []
    ctx = r.choice(CONTEXTS)
    typ = 'bool' if ctx in ('subscript', 'if', 'while') else ('int' if r.random() < 0.8 else 'bool')
    t = gen_tree(r, r.randint(1, 5), typ, leaves)
    pool = [r.randint(-40, 40) for _ in range(2)]
    vals = []
    for k in leaves:
        if k == 'bool':
            vals.append(r.randint(0, 1))
        else:
            x = r.random()
            vals.append(r.choice(VALUES) if x < 0.45 else r.choice(pool) if x < 0.65 else r.randint(-70000, 70000) if x < 0.85 else r.randint(-2**31, 2**31 - 1))
    n = len(leaves)
    mask = [r.random() < 0.5 for _ in range(n)]
    if n >= 3 and r.random() < 0.4:
        # force one whole sub-tree constant inside an otherwise run-time expression
        mask = [False] * n
        node = t
        while node.kids and r.random() < 0.6:
            node = r.choice(node.kids)
        def mark(x):
            if x.op == 'leaf':
                mask[x.idx] = True
            for k in x.kids:
                mark(k)
        mark(node)
    spell = []
    for i, k in enumerate(leaves):
        x = r.random()
        spell.append(True if x < 0.3 else (None if (k == 'bool' and x < 0.6) else False))   # True: global val, None: true/false, False: literal
    case = dict(tree=t, vals=vals, mask=mask, spell=spell, ctx=ctx)
    with driver.Scratch('c07') as scratch:
        verdict, why, srcs = check(case, scratch)
    v, wrapped, cmpovf = evaluate(t, vals)
    mixed = any(mask) and not all(mask)
    big = any(abs(x) >= 65536 for x in vals)
    classes = (['ctx:' + ctx, 'verdict:' + verdict] + (['mixed-mask'] if mixed else []) + (['fold-wraps'] if wrapped else []) + (['pool-constant'] if big else []) +
               (['comparison-difference-wraps'] if cmpovf else []))
    key = (tree_to_list(t), vals, mask, ctx)
    stats.case(key=key, classes=classes, nontrivial=(mixed or wrapped or big or cmpovf),
               sample={'context': ctx, 'M_variant': srcs.get('M', '')[:600], 'expected_exit': expected_exit(v, ctx)})
    if verdict == 'fail':
        raise hyp.Failure(dict(kind='c07', tree=tree_to_list(t), vals=vals, mask=mask, spell=spell, ctx=ctx), why)


def load_case(c):
    return dict(tree=tree_from_list(c['tree']), vals=c['vals'], mask=c['mask'], spell=c['spell'], ctx=c['ctx'])


def replay_case(c):
    with driver.Scratch('c07r') as s:
        v, why, srcs = check(load_case(c), s)
    return v, why, srcs


def is_cmp_overflow(c, why):
    return has_cmp_overflow_somewhere(tree_from_list(c['tree']), c['vals'])


MATCHERS = {'cmp_diff_overflow': is_cmp_overflow}


def report(ctx, case, why):
    res = [replay_case(case) for _ in range(3)]
    if sum(1 for v, _, _ in res if v == 'fail') < 3:
        ctx.flaky.append({'why': why})
        return
    v, why2, srcs = res[-1]
    case = dict(case, sources=srcs)
    for f in ctx.findings:
        if f.state == 'known' and f.match and MATCHERS.get(f.match, lambda c, w: False)(case, why2):
            ctx.known_finding(f, why2[:160])
            return
    ctx.violation(case, why2 + '\n--- M variant ---\n' + srcs.get('M', ''))


def run(ctx):
    ctx.rule = RULE
    ctx.assumptions = ['run-time leaves are global variables assigned from literals in main (ConstProp does not follow assignments)',
                       '+ - and unary - wrap around; x < y is the sign of the wrapped difference x - y and <= > >= are defined through it as xcmp rewrites them '
                       '(the run-time behaviour, which the property makes the reference; equal to the exact comparison whenever x - y is representable)']
    build.build_many(['xtool'])
    quick = ctx.tier == 'quick'
    for path in driver.regress_files('C07'):
        case = driver.load_json(path)
        v, why, _ = replay_case(case)
        ctx.evaluations += 1
        if v == 'fail':
            fnd = [f for f in ctx.findings if f.witness and os.path.basename(f.witness) == os.path.basename(path)]
            if fnd and fnd[0].state == 'known':
                ctx.known_finding(fnd[0], why[:200])
            else:
                ctx.violation(case, 'regression corpus %s: %s' % (os.path.basename(path), why))
    failures = hyp.fan_out(ctx, 'pylib.props.c07', 'gen_case', 600 if quick else 20000, extra={'tier': ctx.tier})
    seen = set()
    for f in failures:
        c = f['why'].split(':')[0] + f['why'].split(':')[1][:12]
        if c not in seen:
            seen.add(c)
            report(ctx, f['case'], f['why'])
    ctx.min_nontrivial = 200


def replay(path):
    case = driver.load_json(path)
    build.build_many(['xtool'])
    v, why, _ = replay_case(case)
    print('replay %s: %s %s' % (path, v, why[:400]))
    if v == 'fail':
        print('VIOLATION property=C07 replay=%s' % path)
        return 1
    return 0
