"""C14 - tool exit status and output files reflect what happened.

Model-based testing over invocation *histories* in one scratch directory.  A history is a generated list
of operations (write an accepted / a rejected source, pre-create the output file with marker content,
invoke hexasm / xcmp with a drawn argument shape, invoke xrun, invoke hexsim); the model is a dictionary
file -> content, and after every step:
  accepted source  => status 0, no diagnostic, the named file (a.out by default) exists and equals the
                      binary the in-process compiler/assembler produces for the same text, no other file
                      was created or changed;
  rejected source  => status != 0, a diagnostic on stderr, directory unchanged (a pre-existing output file
                      keeps its marker content);
  xrun src         == xcmp src -o t && hexsim t   in stdout and status (xrun's own a.bin is exempt);
  hexsim / xrun    status == reference exit value & 0xFF.
"""
import hashlib
import json
import os
import shutil
import subprocess

from .. import asmgen, build, driver, hyp, toolchain, xcase, xgen, xlang, xref

RULE = ('histories of 1-10 operations over {write accepted X/asm source (G-X in-domain programs, tours), write rejected source (syntax error, '
        'unknown symbol/label, invalid syscall, stray token), pre-create output, hexasm/xcmp with argument shapes -o f src | src -o f | --output f src | '
        'src --output f | default, xrun, hexsim}. Non-trivial = a history with a rejected compile after an accepted one, or a non-default '
        'argument shape (a quarter of them may name an output that cannot be created), or an exit value outside 0-255; distinct by hash of the history.')
# output names that cannot be opened for writing: inside a directory that does not exist, and an existing directory (created by run_history)
UNWRITABLE = ['no-such-dir/out.bin', 'a-directory']
SHAPES = ['default', '-o-before', '-o-after', '--output-before', '--output-after']
BAD_X = ['proc main() is {\n', 'proc main() is foo := 1\n', 'proc main() is 3(0)\n', 'proc main() is x := \n', 'proc main() is skip }\n',
         'val a = ;\nproc main() is skip\n', 'proc main() is "unterminated\n', 'proc 5() is skip\n', 'proc main() is f(1)\n']
BAD_S = ['BR foo\n', 'OPR OPR\n', '123\n', 'BR .\n', 'LDAC -x\n', 'LDAM 1\nBRZ nowhere\n', 'DATA\n', 'OPR 3\n']


def snapshot(d):
    out = {}
    for n in sorted(os.listdir(d)):
        p = os.path.join(d, n)
        if os.path.isfile(p):
            out[n] = hashlib.sha1(open(p, 'rb').read()).hexdigest()
    return out


def expected_binary(kind, text, scratch):
    """The binary the in-process (sanitizer-build) compiler/assembler produces for the same text."""
    d = os.path.join(scratch, 'inproc')
    os.makedirs(d, exist_ok=True)
    if kind == 'x':
        sp = os.path.join(d, 'e.x')
        open(sp, 'w', encoding='latin-1').write(text)
        r = subprocess.run([build.exe('xtool'), 'accept', sp], stdout=subprocess.PIPE, stderr=subprocess.PIPE, env=driver.san_env(), cwd=d, timeout=60)
        if r.returncode != 0:
            return None
        o = json.loads(r.stdout.decode())
        if not o['actions'][0]['ok']:
            return None
        # xtool accept leaves the binary of the last EMIT_BINARY... re-run the binary action through 'run --no-sim' for the bytes
        r = subprocess.run([build.exe('xtool'), 'run', sp, '--no-sim', '--ref-steps', '1'], stdout=subprocess.PIPE, stderr=subprocess.PIPE, env=driver.san_env(), cwd=d, timeout=60)
        p = os.path.join(d, 'xtool.out.bin')
        return open(p, 'rb').read() if os.path.exists(p) else None
    sp = os.path.join(d, 'e.S')
    open(sp, 'w', encoding='latin-1').write(text)
    r = subprocess.run([build.exe('asmtool'), sp, '--out', os.path.join(d, 'e.bin')], stdout=subprocess.PIPE, stderr=subprocess.PIPE, env=driver.san_env(), cwd=d, timeout=60)
    if r.returncode != 0:
        return None
    o = json.loads(r.stdout.decode())
    return bytes.fromhex(o['file']) if o['ok'] else None


def gen_simargs(rng):
    """Options of hexsim / xrun that must not change the exit status: a cycle limit far above the run length, tracing; each before or
    after the file name (so also as the very last argument)."""
    before, after = [], []
    if rng.random() < 0.4:
        (before if rng.random() < 0.5 else after).extend(['--max-cycles', str(rng.choice([100000000, 4000000000, 123456789]))])
    if rng.random() < 0.25:
        (before if rng.random() < 0.5 else after).append(rng.choice(['-t', '--trace']))
    return dict(before=before, after=after)


def sim_cmd(tool, simargs, file):
    sa = simargs or dict(before=[], after=[])
    return [tool] + sa['before'] + [file] + sa['after']


def traced(simargs):
    sa = simargs or dict(before=[], after=[])
    return any(a in ('-t', '--trace') for a in sa['before'] + sa['after'])


def gen_history(rng, tier):
    ops = []
    n = rng.randint(1, 10)
    have = []          # (filename, kind, accepted, text, info)
    for _ in range(n):
        x = rng.random()
        if x < 0.35 or not have:
            kind = 'x' if rng.random() < 0.6 else 'asm'
            name = 'src%d.%s' % (len(have), 'x' if kind == 'x' else 'S')
            if rng.random() < 0.65:
                if kind == 'x' and rng.random() < 0.3:
                    # "as far as the host's 8-bit status can carry it": exit values on and around the multiples of 256
                    v = rng.choice([0, 1, 7, 255, 256, 257, 511, 512, 65536, 65537, 0x1000000, 0x7FFFFF00, 2**31 - 1, -1, -255, -256, -257, -65536, -2**31])
                    lit = ('hex', v % 2**32) if v < 0 else ('num', v)
                    body = [('syscall', 0, [lit])]
                    if rng.random() < 0.5:
                        body.insert(0, ('syscall', 1, [('num', 65 + rng.randint(0, 25)), ('num', 0)]))
                    P = dict(globals=[], procs=[dict(kind='proc', name='main', formals=[], locals=[], body=('seq', body))])
                    inp = b''
                    I = xcase.interpret(P, inp, {}, tier)
                    info = dict(input='', out=bytes(I.out.get('con', b'')).hex(), exit=I.exit & 0xFFFFFFFF, used=0)
                    text = xlang.p_prog(P)
                    have.append((name, kind, True, text, info))
                    ops.append(dict(op='write', name=name, text=text))
                    continue
                if kind == 'x':
                    P, inp, files = xgen.gen_program(rng, tier)
                    try:
                        I = xcase.interpret(P, inp, {}, tier)
                        if I.used_in or I.used_out:
                            continue
                    except (xref.Undefined, KeyError):
                        continue
                    info = dict(input=inp.hex(), out=bytes(I.out.get('con', b'')).hex(), exit=I.exit & 0xFFFFFFFF, used=I.pos)
                    text = xlang.p_prog(P)
                else:
                    items, expected = asmgen.gen_tour(rng)
                    text = asmgen.render(items)
                    info = dict(input='', out=expected.hex(), exit=0, used=0)
                have.append((name, kind, True, text, info))
                ops.append(dict(op='write', name=name, text=text))
            else:
                text = rng.choice(BAD_X if kind == 'x' else BAD_S)
                have.append((name, kind, False, text, None))
                ops.append(dict(op='write', name=name, text=text))
        elif x < 0.45:
            ops.append(dict(op='precreate', name=rng.choice(['a.out', 'out.bin', 'o2'])))
        elif x < 0.8:
            name, kind, acc, text, info = rng.choice(have)
            ops.append(dict(op='compile', tool='xcmp' if kind == 'x' else 'hexasm', src=name, kind=kind, accepted=acc, text=text,
                            shape=rng.choice(SHAPES), out=rng.choice(['out.bin', 'o2', 'a.out'] + (UNWRITABLE if rng.random() < 0.25 else [])), info=info))
        elif x < 0.9:
            cands = [h for h in have if h[1] == 'x']
            if cands:
                name, kind, acc, text, info = rng.choice(cands)
                ops.append(dict(op='xrun', src=name, accepted=acc, text=text, info=info, simargs=gen_simargs(rng)))
        else:
            cands = [h for h in have if h[2]]
            if cands:
                name, kind, acc, text, info = rng.choice(cands)
                ops.append(dict(op='simulate', src=name, kind=kind, text=text, info=info, simargs=gen_simargs(rng)))
    return ops


@driver.hang_is_failure(lambda why: (why, set()))
def run_history(ops, scratch):
    """Returns '' or the description of the first violated invariant, plus class labels."""
    d = os.path.join(scratch, 'work')
    os.makedirs(os.path.join(d, 'a-directory'), exist_ok=True)
    labels = set()
    accepted_before = False
    for step, op in enumerate(ops):
        k = op['op']
        if k == 'write':
            open(os.path.join(d, op['name']), 'w', encoding='latin-1').write(op['text'])
            continue
        if k == 'precreate':
            open(os.path.join(d, op['name']), 'wb').write(b'MARKER-' + op['name'].encode())
            continue
        before = snapshot(d)
        if k == 'compile':
            tool = toolchain.tool(op['tool'])
            shape = op['shape']
            out = 'a.out' if shape == 'default' else op['out']
            flag = '-o' if shape.startswith('-o') else '--output'
            if shape == 'default':
                args = [op['src']]
            elif shape.endswith('before'):
                args = [flag, out, op['src']]
            else:
                args = [op['src'], flag, out]
            if shape != 'default':
                labels.add('non-default-shape')
            r = subprocess.run([tool] + args, cwd=d, stdout=subprocess.PIPE, stderr=subprocess.PIPE, timeout=60)
            after = snapshot(d)
            where = 'step %d: %s %s' % (step, op['tool'], ' '.join(args))
            acc = op['accepted']
            if not acc:
                # whether a malformed-looking source is accepted is decided by the library entry point (in-process
                # compile of the same text), not presumed: the CLI must *reflect* that decision
                acc = expected_binary(op['kind'], op['text'], scratch) is not None
                if acc:
                    labels.add('odd-source-accepted')
            if acc and shape != 'default' and out in UNWRITABLE:
                # "on any error": the source is fine but the binary cannot be left in the named file
                labels.add('unwritable-output')
                if r.returncode == 0:
                    return '%s: the output file cannot be created but the exit status is 0 (stderr %r)' % (where, r.stderr[:100]), labels
                if not r.stderr.strip():
                    return '%s: the output file cannot be created but there is no diagnostic' % where, labels
                if before != after:
                    return '%s: the output file cannot be created but the directory changed: %s' % (where, [n for n in set(before) | set(after) if before.get(n) != after.get(n)]), labels
            elif acc:
                accepted_before = True
                if r.returncode != 0:
                    return '%s: accepted source but exit status %d (%r)' % (where, r.returncode, r.stderr[:120]), labels
                if r.stderr.startswith(b'Error'):
                    return '%s: accepted source but a diagnostic was printed: %r' % (where, r.stderr[:120]), labels
                if out not in after:
                    return '%s: status 0 but the output file %s does not exist (directory: %s)' % (where, out, sorted(after)), labels
                exp = expected_binary(op['kind'], op['text'], scratch)
                if exp is not None and hashlib.sha1(exp).hexdigest() != after[out]:
                    return '%s: %s differs from the binary the in-process %s produces for the same text' % (where, out, op['tool']), labels
                for n in set(before) | set(after):
                    if n != out and before.get(n) != after.get(n):
                        return '%s: file %s was %s although only %s should be written' % (where, n, 'created' if n not in before else 'changed or removed', out), labels
            else:
                if accepted_before:
                    labels.add('reject-after-accept')
                if r.returncode == 0:
                    return '%s: rejected source (%r) but exit status 0; stderr %r' % (where, op['text'][:30], r.stderr[:100]), labels
                if not r.stderr.strip():
                    return '%s: rejected source but no diagnostic on stderr' % where, labels
                if before != after:
                    diff = [n for n in set(before) | set(after) if before.get(n) != after.get(n)]
                    return '%s: rejected source but the directory changed: %s' % (where, diff), labels
        elif k == 'xrun':
            info = op['info']
            inp = bytes.fromhex(info['input']) if info else b''
            cmd = sim_cmd(toolchain.tool('xrun'), op.get('simargs'), op['src'])
            tr = traced(op.get('simargs'))
            if cmd[1:] != [op['src']]:
                labels.add('simulator-options')
            r = subprocess.run(cmd, cwd=d, input=inp, stdout=subprocess.PIPE, stderr=subprocess.PIPE, timeout=120)
            after = snapshot(d)
            where = 'step %d: xrun %s' % (step, ' '.join(cmd[1:]))
            for n in set(before) | set(after):
                if n != 'a.bin' and before.get(n) != after.get(n):
                    return '%s: file %s was created or changed' % (where, n), labels
            # the composition it must equal
            t = os.path.join(scratch, 'xrun-ref.bin')
            if os.path.exists(t):
                os.unlink(t)
            c = subprocess.run([toolchain.tool('xcmp'), os.path.join(d, op['src']), '-o', t], cwd=scratch, stdout=subprocess.PIPE, stderr=subprocess.PIPE, timeout=60)
            if c.returncode != 0 or not os.path.exists(t):
                if r.returncode == 0:
                    return '%s: xcmp rejects the source (status %d) but xrun exits 0' % (where, c.returncode), labels
                continue
            h = subprocess.run([toolchain.tool('hexsim'), t], cwd=scratch, input=inp, stdout=subprocess.PIPE, stderr=subprocess.PIPE, timeout=120)
            if (not tr and r.stdout != h.stdout) or r.returncode != h.returncode:
                return '%s: stdout/status %r/%d, xcmp followed by hexsim gives %r/%d' % (where, r.stdout[:30], r.returncode, h.stdout[:30], h.returncode), labels
            if info and (r.returncode != (info['exit'] & 0xFF) or (not tr and r.stdout.hex() != info['out'])):
                return '%s: status %d output %r, the reference gives %d / %s' % (where, r.returncode, r.stdout[:30], info['exit'] & 0xFF, info['out'][:40]), labels
            if info and info['exit'] > 255:
                labels.add('exit-outside-0-255')
        elif k == 'simulate':
            info = op['info']
            t = os.path.join(scratch, 'sim.bin')
            if os.path.exists(t):
                os.unlink(t)
            tool = 'xcmp' if op['kind'] == 'x' else 'hexasm'
            c = subprocess.run([toolchain.tool(tool), os.path.join(d, op['src']), '-o', t], cwd=scratch, stdout=subprocess.PIPE, stderr=subprocess.PIPE, timeout=60)
            if c.returncode != 0 or not os.path.exists(t):
                return 'step %d: %s did not write %s for an accepted source (status %d)' % (step, tool, t, c.returncode), labels
            inp = bytes.fromhex(info['input'])
            cmd = sim_cmd(toolchain.tool('hexsim'), op.get('simargs'), t)
            tr = traced(op.get('simargs'))
            if cmd[1:] != [t]:
                labels.add('simulator-options')
            h = subprocess.run(cmd, cwd=d, input=inp, stdout=subprocess.PIPE, stderr=subprocess.PIPE, timeout=120)
            if h.returncode != (info['exit'] & 0xFF) or (not tr and h.stdout.hex() != info['out']):
                return 'step %d: hexsim %s: status %d output %r, the reference gives %d / %s (stderr %r)' % (step, ' '.join(cmd[1:-1] if cmd[-1] == t else cmd[1:]), h.returncode, h.stdout[:30], info['exit'] & 0xFF, info['out'][:40], h.stderr[:80]), labels
            if info['exit'] > 255:
                labels.add('exit-outside-0-255')
    return '', labels


def gen_case(rng, stats, extra):
    ops = gen_history(rng, extra['tier'])
    if not ops:
        stats.discard('empty-history')
        return
    with driver.Scratch('c14') as scratch:
        why, labels = run_history(ops, scratch)
    key = json.dumps(ops, sort_keys=True)
    kinds = [o['op'] + (':' + o.get('tool', '') if o['op'] == 'compile' else '') for o in ops]
    stats.case(key=key, classes=sorted(set(kinds)) + sorted(labels) + ['verdict:' + ('fail' if why else 'ok')], nontrivial=bool(labels),
               sample={'history': [{k: (v if k != 'text' else v[:80]) for k, v in o.items() if k != 'info'} for o in ops][:10]})
    if why:
        raise hyp.Failure(dict(kind='c14', ops=ops), why)


def replay_case(case):
    with driver.Scratch('c14r') as s:
        why, _ = run_history(case['ops'], s)
    return ('fail' if why else 'ok'), why


def report(ctx, case, why):
    res = [replay_case(case) for _ in range(3)]
    if sum(1 for v, _ in res if v == 'fail') < 3:
        ctx.flaky.append({'why': why})
        return
    # shorten the history greedily
    ops = list(case['ops'])
    cat = res[-1][1].split(':')[1][:25] if ':' in res[-1][1] else ''
    i = len(ops) - 1
    while i >= 0:
        cand = ops[:i] + ops[i + 1:]
        if cand:
            v, w = replay_case(dict(case, ops=cand))
            if v == 'fail' and (w.split(':')[1][:25] if ':' in w else '') == cat:
                ops = cand
        i -= 1
    case = dict(case, ops=ops)
    v, w = replay_case(case)
    ctx.violation(case, w or why)


def run(ctx):
    ctx.rule = RULE
    ctx.assumptions = ['accepted sources are in-domain G-X programs and tours; rejected ones are of kinds the unit tests assert an exception for',
                       'xrun\'s intermediate a.bin in the working directory is its documented way of working and exempt from the no-other-file rule']
    build.build_many(['tool-xcmp', 'tool-hexasm', 'tool-hexsim', 'tool-xrun', 'xtool', 'asmtool'])
    quick = ctx.tier == 'quick'
    for path in driver.regress_files('C14'):
        case = driver.load_json(path)
        v, why = replay_case(case)
        ctx.evaluations += 1
        if v == 'fail':
            ctx.violation(case, 'regression corpus %s: %s' % (os.path.basename(path), why))
    failures = hyp.fan_out(ctx, 'pylib.props.c14', 'gen_case', 300 if quick else 6000, extra={'tier': ctx.tier})
    seen = set()
    for f in failures:
        parts = f['why'].split(':')
        c = (parts[1].split()[0] if len(parts) > 1 else '') + (parts[2][:25] if len(parts) > 2 else '')
        if c not in seen:
            seen.add(c)
            report(ctx, f['case'], f['why'])
    ctx.min_nontrivial = 100


def replay(path):
    case = driver.load_json(path)
    build.build_many(['tool-xcmp', 'tool-hexasm', 'tool-hexsim', 'tool-xrun', 'xtool', 'asmtool'])
    v, why = replay_case(case)
    print('replay %s: %s %s' % (path, v, why[:400]))
    if v == 'fail':
        print('VIOLATION property=C14 replay=%s' % path)
        return 1
    return 0
