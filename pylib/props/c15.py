"""C15 - trace and debug symbols report what is actually executing.

Real xcmp -> binary; real `hexsim -t`; refisa step trace (refrun --trace); xref call trace.
 (a) the symbol table parsed from the file by our own reader lists exactly the source's procedures and
     functions, once each, offsets strictly ascending;
 (b) the k-th *call event* of refisa's trace (an LDAP whose next non-prefix instruction is a BR; the start
     stub's call of main is event 0) lands on the offset the table gives for the k-th callee of xref's call
     sequence; a never-called procedure's offset must start the entry sequence LDBM 1; STAI 0;
 (c) the trace stream is consumed *guided by refisa*: for step i the text at the cursor must give count i,
     refisa's address, the mnemonic and 4-bit operand of the byte refisa executed, and sym+off = the table
     entry with the greatest offset <= address (blank before the first); the free-form rest of the line is
     skipped; at an SVC the byte the program writes and the exit/write/read note are consumed as predicted;
 (d) the steps shown with offset 0 are exactly the call sequence.
"""
import json
import os
import re
import struct
import subprocess

from .. import build, driver, hyp, toolchain, xcase, xgen, xlang, xmin, xref
from .c05 import parse_debug, split_file

RULE = ('G-X programs with >= 2 procedures (source order != call order, never-called procedures, recursion) x generated inputs, through the '
        'real xcmp and hexsim -t. Non-trivial = >= 3 symbols and >= 2 distinct callees entered; distinct by hash of (source, input).')
MNEM = ['LDAM', 'LDBM', 'STAM', 'LDAC', 'LDBC', 'LDAP', 'LDAI', 'LDBI', 'STAI', 'BR', 'BRZ', 'BRN', 'UNKNOWN', 'OPR', 'PFIX', 'NFIX']


def read_ref_trace(path):
    steps = []
    for ln in open(path):
        p = ln.split()
        if len(p) == 2:
            steps.append((int(p[0]), int(p[1]), None))
        else:
            steps.append((int(p[0]), int(p[1]), tuple(int(x) for x in p[3:])))
    return steps


def sym_for(table, addr):
    best = None
    for name, off in table:
        if off <= addr and (best is None or off >= best[1]):
            best = (name, off)
    return best


def consume_trace(out, steps, table):
    """Guided parse of hexsim -t output. Returns (ok, why, zero_offset_names)."""
    pos = 0
    n = len(out)
    entries = []
    for i, (addr, inst, svc) in enumerate(steps):
        # leading columns up to and including the nibble
        # "%-6d %-6d [%-12s ]%-4s %-2d ": the operand column is two wide (left-justified) plus one space
        m = re.compile(rb'(\d+)\s+(\d+)\s+(?:([A-Za-z][A-Za-z0-9_]*)\+(\d+)\s+)?([A-Z]+)\s+(\d\d |\d  )').match(out, pos)
        if not m:
            return False, 'step %d: trace text at offset %d does not start a trace line: %r' % (i, pos, out[pos:pos + 60]), entries
        cnt, a = int(m.group(1)), int(m.group(2))
        if cnt != i:
            return False, 'step %d: trace shows instruction count %d' % (i, cnt), entries
        if a != addr:
            return False, 'step %d: trace shows address %d, the ISA reference executes the byte at %d' % (i, a, addr), entries
        if m.group(5).decode() != MNEM[inst >> 4]:
            return False, 'step %d at %d: trace shows %s, the byte executed is 0x%02x (%s)' % (i, addr, m.group(5).decode(), inst, MNEM[inst >> 4]), entries
        if int(m.group(6).strip()) != (inst & 15):
            return False, 'step %d at %d: trace shows operand %s, the byte executed is 0x%02x' % (i, addr, m.group(6).decode().strip(), inst), entries
        exp = sym_for(table, addr)
        got = (m.group(3).decode(), int(m.group(4))) if m.group(3) else None
        if exp is None:
            if got is not None:
                return False, 'step %d at %d: labelled %s+%d but no symbol starts at or before it' % (i, addr, got[0], got[1]), entries
        else:
            if got is None or got[0] != exp[0] or got[1] != addr - exp[1]:
                return False, 'step %d at %d: labelled %s, the containing symbol is %s+%d' % (i, addr, ('%s+%d' % got) if got else 'nothing', exp[0], addr - exp[1]), entries
            if got[1] == 0:
                entries.append(got[0])
        pos = m.end()
        if svc is None:
            e = out.find(b'\n', pos)
            if e < 0:
                return False, 'step %d: trace line is not terminated' % i, entries
            pos = e + 1
        else:
            kind = svc[0]
            if kind == 1:
                value, stream = svc[1], svc[2]
                sstream = stream - 2**32 if stream >= 2**31 else stream
                if sstream < 256:
                    if pos >= n or out[pos] != (value & 0xFF):
                        return False, 'step %d: the byte written by the program (0x%02x) is not in the stream at this point' % (i, value & 0xFF), entries
                    pos += 1
                exp_txt = b'write %d to simout(%d)\n' % (value, stream)
            elif kind == 0:
                exp_txt = b'exit %d\n' % svc[1]
            else:
                exp_txt = b'read %d to mem[%08x]\n' % (svc[1], svc[2])
            if out[pos:pos + len(exp_txt)] != exp_txt:
                return False, 'step %d: system-call note %r expected, stream has %r' % (i, exp_txt, out[pos:pos + len(exp_txt) + 10]), entries
            pos += len(exp_txt)
    if pos != n:
        return False, 'trace continues after the last executed instruction: %r' % out[pos:pos + 60], entries
    return True, '', entries


def call_events(steps):
    """Landing addresses of LDAP; [prefix]*; BR sequences."""
    ev = []
    i = 0
    while i < len(steps):
        if steps[i][1] >> 4 == 5:           # LDAP
            j = i + 1
            while j < len(steps) and steps[j][1] >> 4 in (14, 15):
                j += 1
            if j < len(steps) and steps[j][1] >> 4 == 9 and j + 1 < len(steps):
                ev.append(steps[j + 1][0])
                i = j + 1
                continue
        i += 1
    return ev


@driver.hang_is_failure(lambda why: ('fail', why, None, {}))
def check_pair(P, inp, files, tier, scratch):
    try:
        I = xcase.interpret(P, inp, files, tier)
    except xref.Undefined as u:
        return 'undefined', str(u), None, {}
    src = xlang.p_prog(P)
    sp = os.path.join(scratch, 'p.x')
    open(sp, 'w', encoding='latin-1').write(src)
    img = os.path.join(scratch, 'p.bin')
    ok, r = toolchain.compile_x(sp, img, scratch)
    if not ok:
        return 'fail', 'rejected: xcmp did not produce a binary: %r' % r.stderr[:200], I, {}
    fb = open(img, 'rb').read()
    parts = split_file(fb)
    if parts is None:
        return 'fail', 'table: header word does not fit the file', I, {}
    hw, image, dbg = parts
    table = parse_debug(dbg)
    if table is None:
        return 'fail', 'table: the bytes after the image are not a well-formed symbol table', I, {}
    names = [p['name'] for p in P['procs']]
    if sorted(n for n, _ in table) != sorted(names):
        return 'fail', 'table: symbols %r, source defines %r' % (sorted(n for n, _ in table), sorted(names)), I, {}
    offs = [o for _, o in table]
    if any(b <= a for a, b in zip(offs, offs[1:])):
        return 'fail', 'table: offsets not strictly ascending: %r' % table, I, {}
    tmap = dict(table)
    ip = os.path.join(scratch, 'input')
    open(ip, 'wb').write(inp)
    for k, v in files.items():
        open(os.path.join(scratch, 'simin%d' % k), 'wb').write(v)
    tr = os.path.join(scratch, 'ref.trace')
    rr = subprocess.run([build.exe('refrun'), img, '--in', ip, '--trace', tr, '--max-steps', str(1000 * I.steps + 100000)] +
                        sum((['--simin', str(k), os.path.join(scratch, 'simin%d' % k)] for k in files), []), stdout=subprocess.PIPE, cwd=scratch)
    ro = json.loads(rr.stdout.decode())
    if ro['status'] != 'exited':
        return 'fail', 'run: ISA reference ended with ' + ro['status'], I, {}
    steps = read_ref_trace(tr)
    # (b) call events
    ev = call_events(steps)
    if len(ev) != len(I.calls):
        return 'fail', 'calls: %d call events in the executed code, the source program performs %d calls' % (len(ev), len(I.calls)), I, {}
    inv = {o: n for n, o in table}
    if I.call_order_open:
        # two operands whose order X leaves open both performed calls: only the multiset of calls is defined
        landed = [inv.get(land) for land in ev]
        if None in landed or sorted(landed) != sorted(I.calls):
            return 'fail', 'calls: executed code enters %r, the source program calls %r (order open)' % (landed[:12], I.calls[:12]), I, {}
        expected_entries = landed
    else:
        for k, (land, callee) in enumerate(zip(ev, I.calls)):
            if tmap[callee] != land:
                return 'fail', 'calls: call %d enters %s; the code lands on byte %d, the table gives %d' % (k, callee, land, tmap[callee]), I, {}
        expected_entries = I.calls
    called = set(I.calls)
    for nme, off in table:
        if nme not in called and image[off:off + 2] != b'\x11\x80':
            return 'fail', 'table: never-called %s at %d does not start with the entry sequence (bytes %s)' % (nme, off, image[off:off + 2].hex()), I, {}
    # (c) hexsim -t
    with open(ip, 'rb') as fin:
        hs = subprocess.run([toolchain.tool('hexsim'), img, '-t', '--max-cycles', str(len(steps) + 64)], stdin=fin, stdout=subprocess.PIPE, stderr=subprocess.PIPE, cwd=scratch, timeout=120)
    ok, why, entries = consume_trace(hs.stdout, steps, table)
    if not ok:
        return 'fail', 'trace: ' + why, I, {}
    # (d)
    if entries != expected_entries:
        return 'fail', 'entries: procedure entries shown by the trace %r, call sequence of the source %r' % (entries[:12], expected_entries[:12]), I, {}
    if hs.returncode != (I.exit & 0xFF):
        return 'fail', 'trace: hexsim -t exited with %d, program exit value %d' % (hs.returncode, I.exit), I, {}
    max_off = max([a - sym_for(table, a)[1] for a, _, _ in steps if sym_for(table, a)] + [0])
    return 'ok', '', I, dict(symbols=len(table), callees=len(called), steps=len(steps), call_order_open=I.call_order_open, max_offset=max_off)


def gen_case(rng, stats, extra):
    tier = extra['tier']
    mode = 'bulk' if rng.random() >= 0.92 else 'normal'      # "any code sizes": now and then a procedure of several kilobytes
    P, inp, files = xgen.gen_program(rng, tier, mode)
    with driver.Scratch('c15') as scratch:
        verdict, why, I, info = check_pair(P, inp, files, tier, scratch)
    if verdict == 'undefined':
        stats.discard(why)
        return
    src = xlang.p_prog(P)
    nt = verdict == 'ok' and info.get('symbols', 0) >= 3 and info.get('callees', 0) >= 2
    classes = ['verdict:' + verdict, 'symbols:%s' % min(info.get('symbols', 0), 9), 'callees:%s' % min(info.get('callees', 0), 6), 'mode:' + mode]
    if info.get('max_offset', 0) >= 1000:
        classes.append('offset>=1000')
    if I and 'recursion' in I.feat:
        classes.append('recursion')
    if info.get('call_order_open'):
        classes.append('call-order-open')
    stats.case(key=(src, inp), classes=classes, nontrivial=nt, sample={'source': src[:600], 'calls': (I.calls[:12] if I else []), 'info': info})
    if verdict == 'fail':
        raise hyp.Failure(xcase.case_dict(P, inp, files, {'tier': tier}), why)


def replay_case(case):
    P, inp, files = xcase.case_load(case)
    with driver.Scratch('c15r') as s:
        v, why, _, _ = check_pair(P, inp, files, case.get('tier', 'quick'), s)
    return v, why


def report(ctx, case, why):
    P, inp, files = xcase.case_load(case)
    tier = case.get('tier', 'quick')
    cat = why.split(':')[0]

    def still(P2, i2, f2):
        with driver.Scratch('c15m') as s:
            v, w, _, _ = check_pair(P2, i2, f2, tier, s)
        return v == 'fail' and w.split(':')[0] == cat
    if sum(1 for _ in range(3) if still(P, inp, files)) < 3:
        ctx.flaky.append({'why': why})
        return
    P, inp, files = xmin.minimise(P, inp, files, still, budget=200)
    mcase = xcase.case_dict(P, inp, files, {'tier': tier})
    v, w = replay_case(mcase)
    ctx.violation(mcase, (w or why) + '\n--- minimised program ---\n' + mcase['source'])


def run(ctx):
    ctx.rule = RULE
    ctx.assumptions = ['the symbol owning an address is the table entry with the greatest offset <= address',
                       'a call event is LDAP followed (after its own prefixes) by BR; system calls are not calls',
                       'the free-form remainder of a trace line is not checked']
    build.build_many(['tool-xcmp', 'tool-hexsim', 'refrun'])
    quick = ctx.tier == 'quick'
    for path in driver.regress_files('C15'):
        case = driver.load_json(path)
        v, why = replay_case(case)
        ctx.evaluations += 1
        if v == 'fail':
            ctx.violation(case, 'regression corpus %s: %s' % (os.path.basename(path), why))
    failures = hyp.fan_out(ctx, 'pylib.props.c15', 'gen_case', 900 if quick else 15000, extra={'tier': ctx.tier})
    seen = set()
    for f in failures:
        c = f['why'].split(':')[0]
        if c not in seen:
            seen.add(c)
            report(ctx, f['case'], f['why'])
    ctx.min_nontrivial = 150


def replay(path):
    case = driver.load_json(path)
    build.build_many(['tool-xcmp', 'tool-hexsim', 'refrun'])
    v, why = replay_case(case)
    print('replay %s: %s %s' % (path, v, why[:400]))
    if v == 'fail':
        print('VIOLATION property=C15 replay=%s' % path)
        return 1
    return 0


# ---------------------------------------------------------------------------
# Assembly programs with FUNC/PROC directives (the assembler's own symbol path, independent of xcmp)
# ---------------------------------------------------------------------------

@driver.hang_is_failure(lambda why: ('fail', why, {}))
def check_tour(items, expected, scratch):
    """Tour program whose blocks are FUNC/PROC/plain labels: table = FUNC/PROC names in source order at the addresses
    the decode walk assigns; trace consumed under the guidance of the ISA reference."""
    from .. import asmgen
    sp = os.path.join(scratch, 'p.S')
    open(sp, 'w', encoding='latin-1').write(asmgen.render(items))
    img = os.path.join(scratch, 'p.bin')
    ok, r = toolchain.assemble(sp, img, scratch)
    if not ok:
        return 'fail', 'rejected: hexasm did not assemble a tour program: %r' % r.stderr[:160], {}
    fb = open(img, 'rb').read()
    parts = split_file(fb)
    if parts is None:
        return 'fail', 'table: header word does not fit the file', {}
    hw, image, dbg = parts
    table = parse_debug(dbg)
    if table is None:
        return 'fail', 'table: malformed symbol table', {}
    w = asmgen.walk(items, image)
    if not w.ok:
        return 'fail', 'layout: ' + w.why, {}
    exp = [(it[1], w.labels[it[1]]) for it in items if it[0] in ('func', 'proc')]
    if table != exp:
        return 'fail', 'table: symbols %r, the source defines %r' % (table[:8], exp[:8]), {}
    tr = os.path.join(scratch, 'ref.trace')
    rr = subprocess.run([build.exe('refrun'), img, '--trace', tr, '--max-steps', '200000'], stdout=subprocess.PIPE, cwd=scratch)
    ro = json.loads(rr.stdout.decode())
    if ro['status'] != 'exited' or bytes.fromhex(ro['out']) != expected:
        return 'fail', 'run: the tour printed %s (%s) on the ISA reference, expected %s' % (ro['out'], ro['status'], expected.hex()), {}
    steps = read_ref_trace(tr)
    hs = subprocess.run([toolchain.tool('hexsim'), img, '-t', '--max-cycles', str(len(steps) + 64)], stdin=subprocess.DEVNULL, stdout=subprocess.PIPE, stderr=subprocess.PIPE, cwd=scratch, timeout=120)
    if not table:
        return 'ok', '', dict(symbols=0, callees=0, steps=len(steps))     # without symbols hexsim prints a different (unlabelled) format: nothing to check here
    ok2, why, entries = consume_trace(hs.stdout, steps, table)
    if not ok2:
        return 'fail', 'trace: ' + why, {}
    # entries shown with offset 0 must be exactly the FUNC/PROC blocks in execution order
    order = [steps[i][0] for i in range(len(steps))]
    inv = {o: n for n, o in table}
    visited = [inv[a] for a in order if a in inv]
    if entries != visited:
        return 'fail', 'entries: offset-0 lines %r, blocks entered %r' % (entries[:10], visited[:10]), {}
    return 'ok', '', dict(symbols=len(table), callees=len(set(visited)), steps=len(steps))


_gen_case_x = gen_case


def gen_case(rng, stats, extra):          # noqa: F811
    if rng.random() >= 0.85:
        from .. import asmgen
        items, expected = asmgen.gen_tour(rng, funcproc=True)
        with driver.Scratch('c15t') as scratch:
            verdict, why, info = check_tour(items, expected, scratch)
        src = asmgen.render(items)
        stats.case(key=src, classes=['family:asm-tour', 'verdict:' + verdict, 'symbols:%s' % min(info.get('symbols', 0), 9)],
                   nontrivial=(verdict == 'ok' and info.get('symbols', 0) >= 3 and info.get('callees', 0) >= 2), sample={'family': 'asm-tour', 'source': src[:500], 'info': info})
        if verdict == 'fail':
            raise hyp.Failure(dict(kind='tour', items=[list(i) for i in items], expected=expected.hex()), why)
        return
    return _gen_case_x(rng, stats, extra)


_replay_case_x = replay_case


def replay_case(case):                    # noqa: F811
    if case.get('kind') == 'tour':
        with driver.Scratch('c15r') as s:
            v, why, _ = check_tour([tuple(i) for i in case['items']], bytes.fromhex(case['expected']), s)
        return v, why
    return _replay_case_x(case)


_report_x = report


def report(ctx, case, why):               # noqa: F811
    if case.get('kind') == 'tour':
        res = [replay_case(case) for _ in range(3)]
        if sum(1 for v, _ in res if v == 'fail') < 3:
            ctx.flaky.append({'why': why})
            return
        from .. import asmgen
        ctx.violation(dict(case, source=asmgen.render([tuple(i) for i in case['items']])), res[-1][1])
        return
    return _report_x(ctx, case, why)
