"""C12 - a simulator run depends only on the binary, the input and the options.

Images: G-X binaries, G-ASM tours, and *dirty-read* programs (the point here): they read words they never
wrote - beyond the image, in an unwritten array, under the stack - and print/exit with what they saw.
 (i)  in-process (src/c12_fill.cpp): hexsim::Processor placement-constructed in storage pre-filled with
      0x00 / 0xA5 / 0xFF / a pattern, then load() and run();
 (ii) the real hexsim executable under host configurations {ASLR on, setarch -R} x {environment +0, +3 KB}.
Oracle: all runs of one (image, input, options) agree on output bytes, simout files, consumed input and
status, and agree with refisa started from zeroed memory ("reads as zero, as in the reference simulator");
a run cut by --max-cycles gives the same status under every fill and configuration; with -t, exit status,
stdin offset, simout files and the sequence of system calls equal the untraced run.
"""
import json
import os
import re
import subprocess

from .. import asmgen, build, driver, hyp, toolchain, xcase, xgen, xlang, xref
from . import c06

RULE = ('images from three families (X programs via xcmp, tours via hexasm, dirty-read assembly programs that load 1-6 never-written words '
        'anywhere below 200000 and print them) x inputs x storage fills x host configurations x {trace, no trace} x cycle limits '
        '{none, 0, 1, 5, k-1, k, k+1}. Non-trivial = the program reads a word it never wrote, or is cut by the limit, or is traced; '
        'distinct by hash of (image, input, options).')
NOTE = re.compile(rb'(exit \d+|write \d+ to simout\(\d+\)|read \d+ to mem\[[0-9a-f]+\])\n')


def gen_dirty(r):
    """Assembly program that loads never-written words and reports them."""
    n = r.randint(1, 6)
    items = [('ref', 'BR', 'go'), ('data', 150000), (r.choice(['label', 'proc', 'func']), 'go')]
    # the words directly behind the image are where the file's symbol table would land if the loader copied too much: read some of
    # them (the image length is estimated from the item count; prefixes make it a little longer)
    tail = []
    if r.random() < 0.6:
        # FUNC/PROC entries behind the exit: names of varied length (string table length mod 4) and a last symbol at >= 256 or >= 65536
        for k in range(r.randint(1, 4)):
            tail += [('pad', r.choice([0, 3, 40, 300, 300, 70000 if r.random() < 0.1 else 500])), (r.choice(['proc', 'func']), 's' + 'y' * r.randint(0, 9) + str(k)), ('opr', 'ADD')]
    est_words = (12 + n * 14 + sum((it[1] if it[0] == 'pad' else 1) for it in tail)) // 4 + 2
    for _ in range(n):
        how = r.randint(0, 3)
        if how == 3:
            # a byte from a stream that has nothing to give: standard input past its end, or a simin file that does not exist
            stream = r.choice([0, 5, 255, 256, 0x300, 0x7FF, 0x10200])
            items += [('imm', 'LDAC', stream), ('imm', 'LDBM', 1), ('imm', 'STAI', 2), ('imm', 'LDAC', 2), ('opr', 'SVC'),
                      ('imm', 'LDAM', 1), ('imm', 'LDAI', 1)]
            items += [('imm', 'LDBM', 1), ('imm', 'STAI', 2), ('imm', 'LDAC', 0), ('imm', 'STAI', 3), ('imm', 'LDAC', 1), ('opr', 'SVC')]
            continue
        addr = r.choice([r.randint(300, 199999), r.randint(150001, 150010), 199999, r.randint(1000, 2000), est_words + r.randint(-2, 12), est_words + r.randint(0, 40)])
        if how == 0:
            items += [('imm', 'LDAM', addr)]
        elif how == 1:
            off = r.randint(0, 7)
            items += [('imm', 'LDAC', addr - off), ('imm', 'LDAI', off)]
        else:
            items += [('imm', 'LDBC', addr), ('imm', 'LDBI', 0), ('imm', 'LDAC', 0), ('opr', 'ADD')]
        # write areg's low byte to stream 0
        items += [('imm', 'LDBM', 1), ('imm', 'STAI', 2), ('imm', 'LDAC', 0), ('imm', 'STAI', 3), ('imm', 'LDAC', 1), ('opr', 'SVC')]
    # exit with the last loaded word (still in sp[2])
    items += [('imm', 'LDAC', 0), ('opr', 'SVC')]
    return items + tail


def gen_mixed(r):
    """Writes to a file stream, reads from the same stream index, writes to it again, and reports what it read.  hexsim keeps one
    file object per index for both directions, so what such a program sees is hexsim's own business (the ISA reference is not consulted),
    but it must not depend on the host: same simout bytes, output and status under every fill and configuration."""
    s1 = r.choice([256, 0x200, 0x300, 0x7FF, 0x10200])
    items = [('ref', 'BR', 'go'), ('data', 150000), ('label', 'go')]

    def put(ch, stream):
        return [('imm', 'LDAC', ch), ('imm', 'LDBM', 1), ('imm', 'STAI', 2), ('imm', 'LDAC', stream), ('imm', 'STAI', 3), ('imm', 'LDAC', 1), ('opr', 'SVC')]

    def get(stream):
        # read, then print the low byte of the result on the console
        return [('imm', 'LDAC', stream), ('imm', 'LDBM', 1), ('imm', 'STAI', 2), ('imm', 'LDAC', 2), ('opr', 'SVC'), ('imm', 'LDAM', 1), ('imm', 'LDAI', 1),
                ('imm', 'LDBM', 1), ('imm', 'STAI', 2), ('imm', 'LDAC', 0), ('imm', 'STAI', 3), ('imm', 'LDAC', 1), ('opr', 'SVC')]
    for k in range(r.randint(1, 3)):
        items += put(65 + k, s1)
    for _ in range(r.randint(1, 2)):
        items += get(s1 if r.random() < 0.8 else r.choice([0, 256, 0x300]))
    for k in range(r.randint(1, 3)):
        items += put(75 + k, s1)
    if r.random() < 0.5:
        # the other way round on another index: read first (opens simin), then write
        s2 = r.choice([0x400, 0x500, 0x600])
        items += get(s2) + put(90, s2)
    items += [('imm', 'LDAC', 7), ('imm', 'LDBM', 1), ('imm', 'STAI', 2), ('imm', 'LDAC', 0), ('opr', 'SVC')]
    return items


def refrun(img, inp, scratch, max_steps=None):
    ip = os.path.join(scratch, 'ref.in')
    open(ip, 'wb').write(inp)
    args = [build.exe('refrun'), img, '--in', ip, '--trace', os.path.join(scratch, 'ref.trace')]
    if max_steps is not None:
        args += ['--max-steps', str(max_steps)]
    r = subprocess.run(args, stdout=subprocess.PIPE, cwd=scratch)
    return json.loads(r.stdout.decode())


def ref_syscalls(scratch):
    out = []
    for ln in open(os.path.join(scratch, 'ref.trace')):
        p = ln.split()
        if len(p) > 2:
            k = int(p[3])
            if k == 0:
                out.append(b'exit %d' % int(p[4]))
            elif k == 1:
                out.append(b'write %d to simout(%d)' % (int(p[4]), int(p[5])))
            else:
                out.append(b'read %d to mem[%08x]' % (int(p[4]), int(p[5])))
    return out


def fill_runs(img, inp, scratch, limit, trace):
    ip = os.path.join(scratch, 'fill.in')
    open(ip, 'wb').write(inp)
    d = os.path.join(scratch, 'fill')
    os.makedirs(d, exist_ok=True)
    args = [build.exe('c12fill'), img, ip] + (['--max-cycles', str(limit)] if limit else []) + (['--trace'] if trace else [])
    r = subprocess.run(args, stdout=subprocess.PIPE, stderr=subprocess.PIPE, cwd=d, timeout=300)
    if r.returncode != 0:
        return None, 'c12fill exited %d: %s' % (r.returncode, r.stderr.decode(errors='replace')[-300:])
    return json.loads(r.stdout.decode())['runs'], ''


def exe_runs(img, inp, scratch, limit, trace):
    out = []
    base_args = [img] + (['--max-cycles', str(limit)] if limit else []) + (['-t'] if trace else [])
    hexsim = toolchain.tool('hexsim')
    for aslr_off in (False, True):
        for pad in (0, 3000):
            d = os.path.join(scratch, 'exe-%d-%d' % (aslr_off, pad))
            os.makedirs(d, exist_ok=True)
            env = dict(os.environ)
            if pad:
                env['VERIF_PADDING'] = 'x' * pad
            ip = os.path.join(d, 'stdin.bin')
            open(ip, 'wb').write(inp)
            fd = os.open(ip, os.O_RDONLY)
            try:
                cmd = (['setarch', '-R'] if aslr_off else []) + [hexsim] + base_args
                r = subprocess.run(cmd, cwd=d, stdin=fd, stdout=subprocess.PIPE, stderr=subprocess.PIPE, env=env, timeout=300)
                used = os.lseek(fd, 0, os.SEEK_CUR)
            finally:
                os.close(fd)
            files = {}
            for i in range(8):
                p = os.path.join(d, 'simout%d' % i)
                if os.path.exists(p):
                    files[str(i)] = open(p, 'rb').read().hex()
            out.append(dict(cfg='aslr_off=%d pad=%d' % (aslr_off, pad), rc=r.returncode, out=r.stdout, used=used, files=files))
    return out


@driver.hang_is_failure(lambda why: (why, {'status': 'unknown', 'exit': 0, 'out': '', 'consumed': 0, 'steps': 0}))
def check(img, inp, scratch, limit, trace, ref_defined=True):
    """Returns '' or a description."""
    ref = refrun(img, inp, scratch, max_steps=(limit + 1 if limit else 5000000))
    total_known = ref['status'] == 'exited'
    cut = bool(limit) and not total_known
    if not limit and ref['status'] != 'exited' and ref_defined:
        return 'skip:' + ref['status'], ref
    runs, err = fill_runs(img, inp, scratch, limit, trace)
    if runs is None:
        return 'fills: ' + err, ref
    first = runs[0]
    for r in runs[1:]:
        for k in ('rv', 'still_running', 'consumed', 'fileout', 'error') + (() if trace else ('out',)):
            if r[k] != first[k]:
                return 'fills: run() under storage fill %d gives %s=%r, under fill 0 %r (limit %s)' % (r['fill'], k, r[k] if k != 'out' else r[k][:40], first[k] if k != 'out' else first[k][:40], limit), ref
        if trace and NOTE.findall(bytes.fromhex(r['out'])) != NOTE.findall(bytes.fromhex(first['out'])):
            return 'fills: system-call sequence under fill %d differs from fill 0' % r['fill'], ref
    if first['error']:
        return 'fills: hexsim threw %s' % first['error'], ref
    if not cut and ref_defined:
        if (first['rv'] & 0xFFFFFFFF) != ref['exit'] or first['consumed'] != ref['consumed'] or first['still_running']:
            return 'zero: run() returns %d (consumed %d, %s), the reference from zeroed memory exits with %d (consumed %d) within the same limit (trace=%s, limit=%s)' % (
                first['rv'], first['consumed'], 'still running' if first['still_running'] else 'finished', ref['exit'], ref['consumed'], trace, limit), ref
        if not trace and first['out'] != ref['out']:
            return 'zero: output %s, the reference from zeroed memory prints %s' % (first['out'][:40], ref['out'][:40]), ref
        if first['fileout'] != ref['fileout']:
            return 'zero: simout files differ from the reference', ref
    # the real executable under host configurations
    ex = exe_runs(img, inp, scratch, limit, trace)
    e0 = ex[0]
    for e in ex[1:]:
        if e['rc'] != e0['rc'] or e['used'] != e0['used'] or e['files'] != e0['files'] or (not trace and e['out'] != e0['out']):
            return 'host: hexsim under [%s] gives status %d/%d bytes read, under [%s] status %d/%d (limit %s)' % (e['cfg'], e['rc'], e['used'], e0['cfg'], e0['rc'], e0['used'], limit), ref
    if not cut and ref_defined:
        if e0['rc'] != (ref['exit'] & 0xFF) or e0['used'] != ref['consumed'] or e0['files'] != ref['fileout']:
            return 'zero: hexsim exits %d after reading %d bytes, the reference from zeroed memory gives %d / %d' % (e0['rc'], e0['used'], ref['exit'] & 0xFF, ref['consumed']), ref
        if not trace and e0['out'].hex() != ref['out']:
            return 'zero: hexsim prints %r, the reference prints %s' % (e0['out'][:40], ref['out'][:40]), ref
        if trace:
            got = NOTE.findall(e0['out'])
            if got != ref_syscalls(scratch):
                return 'trace: system calls noted in the -t output %r differ from the reference sequence %r' % (got[:6], ref_syscalls(scratch)[:6]), ref
    return '', ref


def gen_case(rng, stats, extra):
    tier = extra['tier']
    with driver.Scratch('c12') as scratch:
        x = rng.random()
        img = os.path.join(scratch, 'p.bin')
        if x < 0.08:
            fam = 'mixed'
            items = gen_mixed(rng)
            src = asmgen.render(items)
            open(os.path.join(scratch, 'p.S'), 'w', encoding='latin-1').write(src)
            ok, r = toolchain.assemble(os.path.join(scratch, 'p.S'), img, scratch)
            inp = bytes(rng.randrange(256) for _ in range(rng.randint(0, 2)))
        elif x < 0.5:
            fam = 'dirty'
            items = gen_dirty(rng)
            src = asmgen.render(items)
            open(os.path.join(scratch, 'p.S'), 'w', encoding='latin-1').write(src)
            ok, r = toolchain.assemble(os.path.join(scratch, 'p.S'), img, scratch)
            inp = bytes(rng.randrange(256) for _ in range(rng.randint(0, 2)))
        elif x < 0.65:
            fam = 'tour'
            items, _ = asmgen.gen_tour(rng)
            src = asmgen.render(items)
            open(os.path.join(scratch, 'p.S'), 'w', encoding='latin-1').write(src)
            ok, r = toolchain.assemble(os.path.join(scratch, 'p.S'), img, scratch)
            inp = b''
        else:
            fam = 'x'
            P, inp, files = xgen.gen_program(rng, tier)
            try:
                I = xcase.interpret(P, inp, {}, tier)
                if I.used_in or I.used_out:
                    raise xref.Undefined('files')
            except (xref.Undefined, KeyError):
                stats.discard('outside-domain')
                return
            src = xlang.p_prog(P)
            open(os.path.join(scratch, 'p.x'), 'w', encoding='latin-1').write(src)
            ok, r = toolchain.compile_x(os.path.join(scratch, 'p.x'), img, scratch)
        if not ok:
            stats.discard('not-assembled')
            return
        k = refrun(img, inp, scratch)['steps']
        trace = rng.random() < 0.3
        lim_choice = rng.choice(['none', 'none', 'none', '0', '1', '5', 'k-1', 'k', 'k+1'])
        limit = {'none': 0, '0': 0, '1': 1, '5': 5, 'k-1': max(1, k - 2), 'k': max(1, k - 1), 'k+1': k}[lim_choice]
        why, ref = check(img, inp, scratch, limit, trace, ref_defined=(fam != 'mixed'))
        image_hex = open(img, 'rb').read().hex()
    if why.startswith('skip:'):
        stats.discard(why)
        return
    cut = bool(limit) and limit + 1 < k
    nt = fam in ('dirty', 'mixed') or cut or trace
    stats.case(key=(image_hex, inp, limit, trace), classes=['family:' + fam, 'limit:' + lim_choice, 'trace:%d' % trace, 'cut:%d' % cut, 'verdict:' + ('fail' if why else 'ok')],
               nontrivial=nt, sample={'family': fam, 'source': src[:400], 'limit': limit, 'trace': trace, 'reference': {k2: ref[k2] for k2 in ('status', 'exit', 'out', 'consumed', 'steps')}})
    if why:
        raise hyp.Failure(dict(kind='c12', image=image_hex, input=inp.hex(), limit=limit, trace=trace, source=src, family=fam, mixed=(fam == 'mixed')), why)


def replay_case(case):
    with driver.Scratch('c12r') as scratch:
        img = os.path.join(scratch, 'p.bin')
        open(img, 'wb').write(bytes.fromhex(case['image']))
        why, _ = check(img, bytes.fromhex(case['input']), scratch, case['limit'], case['trace'], ref_defined=not case.get('mixed'))
    return ('fail' if why and not why.startswith('skip:') else 'ok'), why


def report(ctx, case, why):
    res = [replay_case(case) for _ in range(3)]
    n = sum(1 for v, _ in res if v == 'fail')
    if n == 0:
        ctx.flaky.append({'why': why})
        return
    # a dependence on host state is by nature intermittent: one confirmed recurrence is enough here, the
    # in-process fills make it deterministic in most cases
    if n < 3 and not why.startswith('host'):
        ctx.flaky.append({'why': why, 'fails_of_3': n})
        return
    ctx.violation(case, [w for v, w in res if v == 'fail'][-1] + '\n--- program ---\n' + case.get('source', '')[:800])


def run(ctx):
    ctx.rule = RULE
    ctx.assumptions = ['storage fills reach every member the constructor leaves uninitialised (the Processor object is placement-constructed in the filled buffer)',
                       'a run cut by --max-cycles has no prescribed status, only a repeatable one']
    build.build_many(['tool-xcmp', 'tool-hexasm', 'tool-hexsim', 'c12fill', 'refrun'])
    quick = ctx.tier == 'quick'
    for path in driver.regress_files('C12'):
        case = driver.load_json(path)
        v, why = replay_case(case)
        ctx.evaluations += 1
        if v == 'fail':
            ctx.violation(case, 'regression corpus %s: %s' % (os.path.basename(path), why))
    failures = hyp.fan_out(ctx, 'pylib.props.c12', 'gen_case', 600 if quick else 8000, extra={'tier': ctx.tier})
    seen = set()
    for f in failures:
        c = f['why'].split(':')[0]
        if c not in seen:
            seen.add(c)
            report(ctx, f['case'], f['why'])
    ctx.min_nontrivial = 100


def replay(path):
    case = driver.load_json(path)
    build.build_many(['tool-hexsim', 'c12fill', 'refrun'])
    v, why = replay_case(case)
    print('replay %s: %s %s' % (path, v, why[:400]))
    if v == 'fail':
        print('VIOLATION property=C12 replay=%s' % path)
        return 1
    return 0
