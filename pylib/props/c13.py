"""C13 - RTL testbench results do not depend on the power-on state.

Two ways of quantifying over power-on states:
 (i)  seed enumeration: the real hextb executable with +verilator+seed+N;
 (ii) planted states: src/c13_planted.cpp links hextb.cpp's own load() and run() against a
      --public-flat-rw model and writes adversarial values into pc_q/areg_q/breg_q/oreg_q and into memory
      outside the image before calling them: pc on a planted SVC byte with areg 0..3, on a planted
      STAM/STAI aimed at word 0, word 1 or a code word, on a planted BR, all-ones, random.
Oracle: stdout after the banner, exit status and consumed input equal the reference prediction for every
seed / planted state; in the planted harness additionally, after the reset window pc/areg/breg/oreg are
zero, the image is intact, nothing was printed or read and no exit was taken.
"""
import json
import os
import subprocess

from .. import asmgen, build, driver, hyp, toolchain, xcase, xgen, xlang, xref
from . import c06

RULE = ('(binary, input) pairs from G-X (xcmp) and G-ASM tours (hexasm) x power-on states: Verilator seeds 1..K on the real hextb plus '
        'Hypothesis-drawn seeds, and planted register/memory states (pc at a planted SVC/STAM/STAI/BR/LD* byte outside the image, areg 0..3 and '
        'corner values, all-ones, random). Non-trivial = a planted state whose pre-reset instruction is a store, system call or branch, or a '
        'seed run of a program with I/O; distinct by hash of (binary, input, state).')


def reference_for(P, inp, files, tier):
    I = xcase.interpret(P, inp, files, tier)
    return bytes(I.out.get('con', b'')), I.exit & 0xFF, I.pos, I


def planted_state(rng, image_words, sp):
    """(pc, areg, breg, oreg, {addr: value}, label)"""
    r = rng
    lo = max(image_words + 8, 600)
    w = r.randint(lo, max(6000, lo + 4000))                  # a free word well outside the image and below the stack
    sub = r.randint(0, 3)
    pc = w * 4 + sub
    kind = r.choice(['svc', 'svc', 'stam', 'stai', 'br', 'ldam', 'ones', 'random'])
    words = {}
    a, b, o = r.getrandbits(32), r.getrandbits(32), 0
    if kind == 'svc':
        words[w] = 0xD3D3D3D3
        a = r.choice([0, 1, 2, 3, 0, 1])
        # argument slots of the would-be call, relative to the image's stack pointer
        for k in range(1, 4):
            words[(sp + k) & 0x7FFFF] = r.choice([33, 65, 0, 256, 0x200])
    elif kind == 'stam':
        target = r.choice([0, 1, 2, r.randrange(max(1, image_words))])
        words[w] = 0x01010101 * (0x20 | (target & 15))
        o = target & ~15
    elif kind == 'stai':
        target = r.choice([0, 1, r.randrange(max(1, image_words))])
        words[w] = 0x01010101 * 0x80
        b = target
    elif kind == 'br':
        words[w] = 0x01010101 * (0x90 | r.randrange(16))
    elif kind == 'ldam':
        words[w] = 0x01010101 * (r.choice([0x00, 0x10, 0x60, 0x70]) | r.randrange(16))
    elif kind == 'ones':
        a = b = o = 0xFFFFFFFF
        pc = 0x1FFFFF
    else:
        words[w] = r.getrandbits(32)
        o = r.getrandbits(32)
    return pc, a, b, o, words, kind


def run_planted(img, inp, state, scratch, seeds=(7,)):
    """Run one planted state under several Verilator seeds (state elements the harness does not plant - e.g. a
    register added to the memory or the top level - take different random values); the first failing run is returned."""
    last = (None, 'no run')
    for sd in seeds:
        o, err = _run_planted_once(img, inp, state, scratch, sd)
        last = (o, err)
        if o is None:
            return o, err
        o['seed'] = sd
        if o['p1_error'] or o['p2_error'] or o['p1_out'] or o['p1_consumed'] or o['p1_rc'] or o['p1_image_first_diff'] >= 0 or o['p1_pc'] or o['p1_areg'] or o['p1_breg'] or o['p1_oreg']:
            return o, err
    return last


def _run_planted_once(img, inp, state, scratch, vseed):
    pc, a, b, o, words, kind = state
    ip = os.path.join(scratch, 'input')
    open(ip, 'wb').write(inp)
    exe = os.path.join(build.build('c13planted'), 'c13planted')
    args = [exe, img, ip, str(pc), str(a), str(b), str(o)] + ['%d=%d' % (k, v) for k, v in sorted(words.items())]
    try:
        r = subprocess.run(args, stdout=subprocess.PIPE, stderr=subprocess.PIPE, cwd=scratch, timeout=120, env=dict(os.environ, C13_SEED=str(vseed)))
    except subprocess.TimeoutExpired:
        return None, 'hang'
    if r.returncode != 0:
        return None, 'testbench crashed (status %d) from planted state %s, seed %d' % (r.returncode, kind, vseed)
    try:
        return json.loads(r.stdout.decode().strip().splitlines()[-1]), ''
    except Exception:
        return None, 'unparsable output'


def judge_planted(o, exp_out, exp_rc, exp_used):
    if o['p1_error'] or o['p2_error']:
        return 'power-on: testbench raised %s' % (o['p1_error'] or o['p2_error'])
    if o['p1_out'] or o['p1_consumed'] or o['p1_rc']:
        return 'power-on: a system call was serviced before reset completed (output %s, %d bytes read, exit code %d)' % (o['p1_out'], o['p1_consumed'], o['p1_rc'])
    if o['p1_image_first_diff'] >= 0:
        return 'power-on: image word %d was overwritten before execution began' % o['p1_image_first_diff']
    if o['p1_pc'] or o['p1_areg'] or o['p1_breg'] or o['p1_oreg']:
        return 'power-on: registers after the reset window pc=%d areg=%d breg=%d oreg=%d' % (o['p1_pc'], o['p1_areg'], o['p1_breg'], o['p1_oreg'])
    if bytes.fromhex(o['p2_out']) != exp_out:
        return 'result: output %s, the reference predicts %s' % (o['p2_out'][:60], exp_out.hex()[:60])
    if (o['p2_rc'] & 0xFF) != exp_rc:
        return 'result: exit status %d, the reference predicts %d' % (o['p2_rc'] & 0xFF, exp_rc)
    if o['p2_consumed'] != exp_used:
        return 'result: %d input bytes consumed, the reference predicts %d' % (o['p2_consumed'], exp_used)
    return ''


def run_seed(img, inp, seed, scratch):
    d = os.path.join(scratch, 'seed')
    os.makedirs(d, exist_ok=True)
    exe = os.path.join(build.build('hextb'), 'hextb')
    return c06.run_exe(exe, [img, '--max-cycles', '3000000', '+verilator+seed+%d' % seed], d, inp)


def judge_seed(res, exp_out, exp_rc, exp_used):
    if res is None:
        return 'hang: hextb did not finish'
    m = c06.BANNER.match(res['out'])
    if not m:
        return 'banner: missing (%r)' % res['out'][:40]
    if res['rc'] < 0 or res['rc'] > 255:
        return 'crash: hextb died with status %d' % res['rc']
    out = res['out'][m.end():]
    if out != exp_out:
        return 'result: output %r, the reference predicts %r' % (out[:40], exp_out[:40])
    if res['rc'] != exp_rc:
        return 'result: exit status %d, the reference predicts %d' % (res['rc'], exp_rc)
    if res['used'] != exp_used:
        return 'result: %d input bytes consumed, the reference predicts %d' % (res['used'], exp_used)
    return ''


def make_binary(rng, tier, scratch):
    """Returns (img path, input, exp_out, exp_rc, exp_used, source text, image_words, sp) or None if outside the domain."""
    if rng.random() < 0.3:
        items, expected = asmgen.gen_tour(rng, huge=0.15)
        sp = os.path.join(scratch, 'p.S')
        src = asmgen.render(items)
        open(sp, 'w', encoding='latin-1').write(src)
        img = os.path.join(scratch, 'p.bin')
        ok, r = toolchain.assemble(sp, img, scratch)
        if not ok:
            return None
        exp = (expected, 0, 0)
        inp = b''
    else:
        P, inp, files = xgen.gen_program(rng, tier)
        if files:
            files = {}
        try:
            out, rc, used, I = reference_for(P, inp, files, tier)
        except xref.Undefined:
            return None
        if I.used_in or I.used_out:
            return None            # file streams are C06's business; keep the power-on cases to the console
        src = xlang.p_prog(P)
        sp = os.path.join(scratch, 'p.x')
        open(sp, 'w', encoding='latin-1').write(src)
        img = os.path.join(scratch, 'p.bin')
        ok, r = toolchain.compile_x(sp, img, scratch)
        if not ok:
            return None
        exp = (out, rc, used)
    fb = open(img, 'rb').read()
    words = int.from_bytes(fb[:4], 'little')
    spv = int.from_bytes(fb[8:12], 'little') if len(fb) >= 12 else 0
    return img, inp, exp[0], exp[1], exp[2], src, words, spv


def gen_case(rng, stats, extra):
    tier = extra['tier']
    with driver.Scratch('c13') as scratch:
        mb = make_binary(rng, tier, scratch)
        if mb is None:
            stats.discard('outside-domain')
            return
        img, inp, exp_out, exp_rc, exp_used, src, words, spv = mb
        image_hex = open(img, 'rb').read().hex()
        if rng.random() < 0.6:
            state = planted_state(rng, words, spv)
            vseeds = [rng.randint(1, 2**31 - 1) for _ in range(3)]
            o, err = run_planted(img, inp, state, scratch, vseeds)
            why = err if o is None else judge_planted(o, exp_out, exp_rc, exp_used)
            kind = 'planted:' + state[5]
            case = dict(kind='planted', image=image_hex, input=inp.hex(), vseeds=vseeds, state=[state[0], state[1], state[2], state[3], {str(k): v for k, v in state[4].items()}, state[5]],
                        exp_out=exp_out.hex(), exp_rc=exp_rc, exp_used=exp_used, source=src)
            nt = state[5] in ('svc', 'stam', 'stai', 'br', 'ldam')
            key = (image_hex, inp, state[:4], sorted(state[4].items()))
        else:
            seed = rng.randint(1, 2**31 - 1)
            res = run_seed(img, inp, seed, scratch)
            why = judge_seed(res, exp_out, exp_rc, exp_used)
            kind = 'seed'
            case = dict(kind='seed', image=image_hex, input=inp.hex(), seed=seed, exp_out=exp_out.hex(), exp_rc=exp_rc, exp_used=exp_used, source=src)
            nt = bool(exp_out) or exp_used > 0
            key = (image_hex, inp, seed)
    stats.case(key=key, classes=[kind, 'verdict:' + ('fail' if why else 'ok')] + (['image>64KiB'] if words > 16384 else []), nontrivial=nt,
               sample={'kind': kind, 'source': src[:300], 'state': case.get('state', case.get('seed'))})
    if why:
        raise hyp.Failure(case, why)


def replay_case(case):
    with driver.Scratch('c13r') as scratch:
        img = os.path.join(scratch, 'p.bin')
        open(img, 'wb').write(bytes.fromhex(case['image']))
        inp = bytes.fromhex(case['input'])
        exp = (bytes.fromhex(case['exp_out']), case['exp_rc'], case['exp_used'])
        if case['kind'] == 'planted':
            st = case['state']
            state = (st[0], st[1], st[2], st[3], {int(k): v for k, v in st[4].items()}, st[5])
            o, err = run_planted(img, inp, state, scratch, case.get('vseeds', [7, 1, 2, 3, 4, 5, 6, 8]))
            why = err if o is None else judge_planted(o, *exp)
        else:
            why = judge_seed(run_seed(img, inp, case['seed'], scratch), *exp)
    return ('fail' if why else 'ok'), why


def report(ctx, case, why):
    res = [replay_case(case) for _ in range(3)]
    if sum(1 for v, _ in res if v == 'fail') < 3:
        ctx.flaky.append({'why': why, 'kind': case['kind']})
        return
    ctx.violation(case, res[-1][1] + '\n--- program ---\n' + case.get('source', '')[:1500])


def _enum_worker(args):
    img, inp, seeds, exp = args
    bad = []
    with driver.Scratch('c13e') as scratch:
        for s in seeds:
            why = judge_seed(run_seed(img, inp, s, scratch), *exp)
            if why:
                bad.append((s, why))
    return len(seeds), bad


def run(ctx):
    ctx.rule = RULE
    ctx.assumptions = ['Verilator randReset(2) with +verilator+seed+N is the seed-enumerated power-on state space',
                       'planted states are written through the public model variables before hextb.cpp\'s own load() and run() are called',
                       'the reset window is the first five rising edges (run(..., maxCycles=4))',
                       'binaries never read a word they have not written (as in C06): the RTL memory has no reset and hextb randomises it on purpose, so a '
                       'program that reads such a word (tests/asm/hello_procedure.S exits with a never-written sp[2]: status 38 or 48 by seed, 0 on hexsim) '
                       'depends on memory outside the image by its own definition, not through the testbench']
    build.build_many(['tool-xcmp', 'tool-hexasm', 'hextb', 'c13planted'])
    quick = ctx.tier == 'quick'
    for path in driver.regress_files('C13'):
        case = driver.load_json(path)
        v, why = replay_case(case)
        ctx.evaluations += 1
        if v == 'fail':
            ctx.violation(case, 'regression corpus %s: %s' % (os.path.basename(path), why))
    # systematic seed enumeration on shipped programs
    with driver.Scratch('c13s') as scratch:
        K = 1500 if quick else 30000
        jobs = []
        imgs = toolchain.shipped_images(scratch)
        pick = [i for i in imgs if i[0] in ('hello.S', 'exit255.S', 'hello_putval.x#0', 'echo_char.x#0', 'fib.x#0', 'exit.x#0')]
        W = driver.NCPU
        for name, img, inp in pick:
            r = subprocess.run([build.exe('refrun'), img, '--in', '/dev/null'], stdout=subprocess.PIPE)
            ip = os.path.join(scratch, 'in-' + name.replace('#', '_'))
            open(ip, 'wb').write(inp)
            r = subprocess.run([build.exe('refrun'), img, '--in', ip], stdout=subprocess.PIPE)
            o = json.loads(r.stdout.decode())
            exp = (bytes.fromhex(o['out']), o['exit'] & 0xFF, o['consumed'])
            per = max(1, K // len(pick))
            seeds = list(range(1, per + 1))
            for w in range(W):
                jobs.append((img, inp, seeds[w::W], exp))
        import multiprocessing
        with multiprocessing.get_context('fork').Pool(W) as pool:
            res = pool.map(_enum_worker, jobs)
        rep = 0
        for (img, inp, seeds, exp), (n, bad) in zip(jobs, res):
            ctx.evaluations += n
            ctx.classes['seed-enumeration'] += n
            for s, why in bad:
                if rep < 2:
                    rep += 1
                    case = dict(kind='seed', image=open(img, 'rb').read().hex(), input=inp.hex(), seed=s, exp_out=exp[0].hex(), exp_rc=exp[1], exp_used=exp[2], source=os.path.basename(img))
                    report(ctx, case, why)
        ctx.nontrivial_extra += sum(n for n, _ in res)
    failures = hyp.fan_out(ctx, 'pylib.props.c13', 'gen_case', 400 if quick else 8000, extra={'tier': ctx.tier})
    seen = set()
    for f in failures:
        c = f['case']['kind'] + f['why'].split(':')[0] + f['why'][:40]
        if c not in seen and len(seen) < 4:
            seen.add(c)
            report(ctx, f['case'], f['why'])
    ctx.min_nontrivial = 200


def replay(path):
    case = driver.load_json(path)
    build.build_many(['hextb', 'c13planted'])
    v, why = replay_case(case)
    print('replay %s: %s %s' % (path, v, why[:400]))
    if v == 'fail':
        print('VIOLATION property=C13 replay=%s' % path)
        return 1
    return 0
