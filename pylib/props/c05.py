"""C05 - every label reference assembles to the address of its label.

Generated assembly programs go through the repository's assembler (asmtool: sanitizer
build, file interface, emitBin).  Oracle = decode walk over the *source* items with a
cursor into the image (asmgen.walk): labels record the cursor (a label directly before
DATA records the aligned address), DATA must be aligned and hold its value, every
instruction is decoded with the ISA prefix rule, relative references must satisfy
end+operand == label, absolute ones operand*4 == label, an absolute reference to a
non-aligned label must have been rejected, the header word must equal the image size.
Tour programs are additionally *executed* on the ISA reference and must print their
permutation.
"""
import json
import os
import subprocess
import struct

from .. import asmgen, build, driver, hyp

RULE = ('three families: (a) Hypothesis-generated multi-label programs (1-8 labels, 2-40 items, padding runs on every encoding-length '
        'boundary, DATA placed where a size change is absorbed by alignment), (b) deterministic boundary sweeps (every relative mnemonic x '
        'distance b-3..b+2 x direction x 0-3 bytes misalignment, b in 16, 256, 4096 [, 65536 thorough]), (c) executable tour programs run on '
        'refisa. Non-trivial = >= 2 label references of which >= 1 needs a prefix, or a sweep case, or a tour of >= 4 blocks; distinct by source hash.')


def run_asmtool(src_text, scratch, timeout=10, extra=()):
    sp = os.path.join(scratch, 'p.S')
    with open(sp, 'w', encoding='latin-1') as f:
        f.write(src_text)
    try:
        r = subprocess.run([build.exe('asmtool'), sp, '--out', os.path.join(scratch, 'p.bin')] + list(extra),
                           stdout=subprocess.PIPE, stderr=subprocess.PIPE, env=driver.san_env(), timeout=timeout, cwd=scratch)
    except subprocess.TimeoutExpired:
        return 'timeout', None, ''
    if r.returncode != 0:
        return 'crash', None, r.stderr.decode(errors='replace')[-1500:]
    try:
        return 'ok', json.loads(r.stdout.decode()), ''
    except Exception:
        return 'crash', None, 'unparsable asmtool output: ' + r.stdout.decode(errors='replace')[-300:]


def split_file(file_bytes):
    """(header_words, image, debug) or None."""
    if len(file_bytes) < 4:
        return None
    hw = struct.unpack('<I', file_bytes[:4])[0]
    if 4 + hw * 4 > len(file_bytes):
        return None
    return hw, file_bytes[4:4 + hw * 4], file_bytes[4 + hw * 4:]


def parse_debug(dbg):
    """[(name, offset)] or None if malformed."""
    try:
        pos = 0
        n = struct.unpack_from('<I', dbg, pos)[0]
        pos += 4
        names = []
        for _ in range(n):
            e = dbg.index(b'\0', pos)
            names.append(dbg[pos:e].decode('latin1'))
            pos = e + 1
        m = struct.unpack_from('<I', dbg, pos)[0]
        pos += 4
        syms = []
        for _ in range(m):
            idx, off = struct.unpack_from('<II', dbg, pos)
            pos += 8
            syms.append((names[idx], off))
        if pos != len(dbg):
            return None
        return syms
    except Exception:
        return None


def oracle(items, scratch, expected_out=None, style=0):
    """Returns (verdict, why, info). verdict in ok / fail / hang / rejected-ok."""
    text = asmgen.render(items, style)
    st, res, err = run_asmtool(text, scratch)
    if st == 'timeout':
        return 'hang', 'assembler did not finish within 10 s', {}
    if st == 'crash':
        return 'fail', 'assembler crashed: ' + err[-700:], {}
    if not res['ok']:
        if asmgen.may_reject(items) and 'not word aligned' in res['err_what']:
            if res['err_type'] == 'hexutil::Error':
                return 'rejected-ok', '', {}
            return 'fail', 'unaligned absolute reference reported through %s: %s' % (res['err_type'], res['err_what']), {}
        return 'fail', 'valid program rejected: %s: %s' % (res['err_type'], res['err_what']), {}
    fb = bytes.fromhex(res['file'])
    sp = split_file(fb)
    if sp is None:
        return 'fail', 'header word does not fit the file (%d bytes)' % len(fb), {}
    hw, image, dbg = sp
    w = asmgen.walk(items, image)
    if not w.ok:
        return 'fail', w.why, {}
    syms = parse_debug(dbg)
    if syms is None:
        return 'fail', 'bytes after the image are not a well-formed symbol table', {}
    exp_syms = [(it[1], w.labels[it[1]]) for it in items if it[0] in ('func', 'proc')]
    if syms != exp_syms:
        return 'fail', 'symbol table %r, expected %r' % (syms[:6], exp_syms[:6]), {}
    if expected_out is not None:
        r = subprocess.run([build.exe('refrun'), os.path.join(scratch, 'p.bin'), '--max-steps', '200000'], stdout=subprocess.PIPE)
        o = json.loads(r.stdout.decode())
        if o['status'] != 'exited' or bytes.fromhex(o['out']) != expected_out:
            return 'fail', 'tour executed on the ISA reference printed %s (status %s), expected %s' % (o['out'], o['status'], expected_out.hex()), {}
    return 'ok', '', {'walk': w}


def nontrivial(items, tour_blocks=0):
    lay = asmgen.layout(items)
    nrefs = sum(1 for it in items if it[0] == 'ref')
    if tour_blocks >= 4:
        return True
    return bool(lay) and nrefs >= 2 and any(s >= 2 for s in lay[1].values())


def gen_case(rng, stats, extra):
    """Hypothesis test body (one generated case)."""
    tier = extra['tier']
    x = rng.random()
    expected = None
    tour_blocks = 0
    if x < 0.25:
        items, expected = asmgen.gen_tour(rng, funcproc=(rng.random() < 0.5))
        tour_blocks = sum(1 for it in items if it[0] in ('label', 'func', 'proc') and it[1].startswith('B'))
        fam = 'tour'
    else:
        items = asmgen.gen_random_program(rng, big=(tier == 'thorough' or rng.random() < 0.15), huge=(tier == 'thorough' and rng.random() < 0.05))
        fam = 'random'
        if rng.random() < 0.85:
            items, fixes = asmgen.fix_absolute_alignment(items, rng)
        else:
            fam = 'random-raw-abs'
    style = rng.randint(0, 10) if rng.random() < 0.3 else 0
    with driver.Scratch('c05') as scratch:
        verdict, why, info = oracle(items, scratch, expected, style)
    classes = ['family:' + fam, 'verdict:' + verdict] + sorted(asmgen.classify(items))
    nt = nontrivial(items, tour_blocks)
    stats.case(key=asmgen.render(items), classes=classes, nontrivial=nt,
               sample={'family': fam, 'source': asmgen.render(items, style)[:600], 'verdict': verdict})
    if verdict in ('fail', 'hang'):
        raise hyp.Failure(dict(kind='asm', items=[list(i) for i in items], style=style,
                               expected_out=(expected.hex() if expected is not None else None), verdict=verdict), why)


def minimise(case, why, budget=250):
    """Greedy item-level minimisation that keeps the failure category."""
    cat = why.split(':')[0][:30]
    items = [tuple(i) for i in case['items'] if tuple(i) != ('pad', 0)]
    exp = bytes.fromhex(case['expected_out']) if case.get('expected_out') else None
    runs = [0]

    def fails(cand):
        runs[0] += 1
        if runs[0] > budget:
            return False
        # keep label references resolvable
        labels = set(it[1] for it in cand if it[0] in ('label', 'func', 'proc'))
        if any(it[0] == 'ref' and it[2] not in labels for it in cand):
            return False
        # keep the generator's discipline: no two labels in a row directly before DATA
        for j, it in enumerate(cand):
            if it[0] in ('label', 'func', 'proc') and j + 1 < len(cand) and cand[j + 1][0] in ('label', 'func', 'proc') and asmgen.label_is_before_data(cand, j):
                return False
            if it[0] in ('func', 'proc') and asmgen.label_is_before_data(cand, j):
                return False
        with driver.Scratch('c05m') as scratch:
            v, w, _ = oracle(cand, scratch, exp, case.get('style', 0))
        return v in ('fail', 'hang') and w.split(':')[0][:30] == cat
    changed = True
    while changed and runs[0] <= budget:
        changed = False
        for i in range(len(items) - 1, -1, -1):
            cand = items[:i] + items[i + 1:]
            if cand and fails(cand):
                items = cand
                changed = True
        for i, it in enumerate(items):
            if it[0] == 'pad' and it[1] > 0:
                for k in (0, it[1] // 2, it[1] - 1):
                    cand = items[:i] + [('pad', k)] + items[i + 1:]
                    if k < it[1] and fails(cand):
                        items = cand
                        changed = True
                        break
    out = dict(case)
    out['items'] = [list(i) for i in items]
    return out


def check_case(case):
    items = [tuple(i) for i in case['items']]
    exp = bytes.fromhex(case['expected_out']) if case.get('expected_out') else None
    with driver.Scratch('c05r') as scratch:
        v, why, _ = oracle(items, scratch, exp, case.get('style', 0))
    return v, why


def report(ctx, case, why):
    res = [check_case(case) for _ in range(3)]
    fails = sum(1 for v, _ in res if v in ('fail', 'hang'))
    if fails < 3:
        ctx.flaky.append({'case': case, 'fails_of_3': fails, 'why': why})
        return
    if res[-1][0] == 'hang':
        # a time budget is only a budget: confirm with a 60 s limit before calling it non-termination
        items = [tuple(i) for i in case['items']]
        with driver.Scratch('c05h') as scratch:
            st, _, _ = run_asmtool(asmgen.render(items, case.get('style', 0)), scratch, timeout=60)
        if st != 'timeout':
            ctx.flaky.append({'case': case, 'note': 'slow, not hung'})
            return
    case = minimise(case, res[-1][1])
    v, why2 = check_case(case)
    case['source'] = asmgen.render([tuple(i) for i in case['items']], case.get('style', 0))
    for f in ctx.findings:
        if f.state == 'known' and f.match and MATCHERS.get(f.match, lambda c, w: False)(case, why2):
            ctx.known_finding(f, why2[:160])
            return
    ctx.violation(case, why2 or why)


MATCHERS = {}


def _sweep_worker(args):
    chunk, = args
    out = []
    n = 0
    for key, items in chunk:
        with driver.Scratch('c05s') as scratch:
            v, why, _ = oracle(items, scratch)
        n += 1
        if v in ('fail', 'hang'):
            out.append((key, [list(i) for i in items], v, why))
            if len(out) >= 3:
                break        # three failing members of the family are enough (each may have cost a time-out)
    return n, out


def run(ctx):
    ctx.rule = RULE
    ctx.assumptions = ['the label placed directly before a DATA word names that (aligned) word; other labels name the next byte',
                       'minimality of reference encodings is not demanded',
                       'asmgen.decode_at implements the ISA prefix rule']
    build.build_many(['asmtool', 'refrun'])
    quick = ctx.tier == 'quick'
    # regression corpus
    for path in driver.regress_files('C05'):
        case = driver.load_json(path)
        v, why = check_case(case)
        ctx.evaluations += 1
        if v in ('fail', 'hang'):
            fnd = [f for f in ctx.findings if f.witness and os.path.basename(f.witness) == os.path.basename(path)]
            if fnd and fnd[0].state == 'known':
                ctx.known_finding(fnd[0], why[:160])
            else:
                ctx.violation(case, 'regression corpus %s: %s' % (os.path.basename(path), why))
    # boundary sweeps (deterministic, complete for the listed boundaries)
    bounds = [16, 256, 4096] if quick else [16, 256, 4096, 65536]
    sweep = list(asmgen.boundary_sweep_programs(bounds)) + list(asmgen.growth_chain_programs([5, 40, 70, 100, 140] if quick else [5, 40, 70, 100, 140, 300, 700, 1500]))
    import multiprocessing
    W = driver.NCPU
    chunks = [[(k, it) for k, it in sweep[i::W]] for i in range(W)]
    with multiprocessing.get_context('fork').Pool(W) as pool:
        res = pool.map(_sweep_worker, [(c,) for c in chunks])
    reported = 0
    for n, fails in res:
        ctx.evaluations += n
        ctx.classes['family:sweep'] += n
        for key, items, v, why in fails:
            if reported < 3:
                report(ctx, dict(kind='asm', items=items, style=0, expected_out=None, sweep_key=list(key)), why)
                reported += 1
    for k, it in sweep:
        ctx.nontrivial_hashes.add('sweep:' + repr(k))
    ctx.notes['sweep_cases'] = len(sweep)
    # generated programs
    failures = hyp.fan_out(ctx, 'pylib.props.c05', 'gen_case', 1200 if quick else 25000, extra={'tier': ctx.tier})
    seen = set()
    for f in failures:
        key = f['why'].split(':')[0][:40]
        if key in seen:
            continue
        seen.add(key)
        report(ctx, f['case'], f['why'])
    ctx.min_nontrivial = 200


def replay(path):
    case = driver.load_json(path)
    build.build_many(['asmtool', 'refrun'])
    v, why = check_case(case)
    print('replay %s: %s %s' % (path, v, why))
    if v in ('fail', 'hang'):
        print('VIOLATION property=C05 replay=%s' % path)
        return 1
    return 0
