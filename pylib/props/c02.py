"""C02 - hexsim executes every instruction exactly as the Hex ISA defines.

hexsim::Processor (HEX_VERIF hook: planted state, observer stops after every
instruction) runs in lock-step with refisa (written from hexb.pdf).  Compared after
every step: pc/areg/breg/oreg, the stored word, console bytes and input position at
system calls; per case: full 800000-byte memory compare, simout<n> files, run()'s
return value.  Steps that leave the defined domain end the case (counted).
"""
import json
import os
import subprocess

from .. import build, driver, toolchain

RULE = ('grid: rapidcheck-generated architectural state (corner/random registers, memory steered so that effective addresses are in range '
        'by construction) x all 256 instruction bytes; seq: generated instruction sequences (prefix chains 0-8, all three system calls, '
        'console and file streams, reads at/past end of input) loaded through the real loader; images: tests/asm and tests/x programs '
        'built by the working-tree hexasm/xcmp with inputs. Non-trivial = a (byte,state) step with a defined meaning, or a '
        'sequence/image that executed >= 8 steps before leaving the domain; distinct by hash of (byte, registers) / image bytes.')


def run_harness(exe, mode_args, seed, n, scratch, tag, size=100):
    d = os.path.join(scratch, tag)
    os.makedirs(d, exist_ok=True)
    env = driver.san_env({'RC_PARAMS': 'seed=%d max_success=%d max_size=%d' % (seed, n, size),
                          'C02_OUT': os.path.join(d, 'out.json'), 'C02_FAIL': os.path.join(d, 'fail.json'), 'C02_DIR': d})
    return subprocess.Popen([exe] + mode_args, stdout=subprocess.PIPE, stderr=subprocess.PIPE, env=env), d


def state_args(st, byte):
    return ['state'] + [str(st[k]) for k in ('pc', 'areg', 'breg', 'oreg', 'target', 'targetVal', 'fetchWord', 'sp')] + \
        [str(v) for v in st['spVals']] + [str(st['svcNum']), '1' if st['steer'] else '0', 'x' + st['input'], str(byte)]


def rerun_case(exe, case, scratch, tag='rerun'):
    """Re-execute a failing case outside rapidcheck. Returns (failed, diff)."""
    d = os.path.join(scratch, tag)
    os.makedirs(d, exist_ok=True)
    env = driver.san_env({'C02_FAIL': os.path.join(d, 'fail.json'), 'C02_DIR': d})
    try:
        os.unlink(os.path.join(d, 'fail.json'))
    except OSError:
        pass
    if case['kind'] == 'grid':
        args = state_args(case['state'], case.get('byte', -1))
    else:
        img = os.path.join(d, 'replay.bin')
        inp = os.path.join(d, 'replay.in')
        if case.get('file'):
            open(img, 'wb').write(bytes.fromhex(case['file']))
        else:
            img = case['path']
        open(inp, 'wb').write(bytes.fromhex(case.get('input', '')))
        args = ['image', img, inp, str(case.get('max_steps', 50000000))]
    r = subprocess.run([exe] + args, stdout=subprocess.PIPE, stderr=subprocess.PIPE, env=env)
    fp = os.path.join(d, 'fail.json')
    if os.path.exists(fp):
        return True, json.load(open(fp)).get('diff', '')
    if r.returncode != 0:
        return True, 'harness exited %d: %s' % (r.returncode, r.stderr.decode(errors='replace')[-800:])
    return False, ''


def report(ctx, exe, case, scratch):
    fails = 0
    diff = case.get('diff', '')
    for i in range(3):
        f, d = rerun_case(exe, case, scratch)
        fails += 1 if f else 0
        diff = d or diff
    if fails < 3:
        ctx.flaky.append({'case': case, 'fails_of_3': fails})
        return
    ctx.violation(case, diff)


def run(ctx):
    ctx.rule = RULE
    ctx.assumptions = ['refisa is a faithful transcription of hexb.pdf (validated by selftest against tests/asm outputs)',
                       'hexsim memory is zeroed by the harness before each case (uninitialised memory is C12\'s subject)',
                       'one file index is used in one direction only within a case (shared connected[] flag in the reference)']
    exe = build.exe('c02')
    quick = ctx.tier == 'quick'
    with driver.Scratch('c02') as scratch:
        # regression corpus
        for path in driver.regress_files('C02'):
            case = driver.load_json(path)
            f, d = rerun_case(exe, case, scratch)
            ctx.evaluations += 1
            if f:
                ctx.violation(case, 'regression corpus %s: %s' % (os.path.basename(path), d))
        procs = []
        W = driver.NCPU
        n_grid = 2500 if quick else 150000
        n_seq = 2500 if quick else 150000
        for w in range(W):
            procs.append(('grid', run_harness(exe, ['grid'], ctx.seed * 1000 + w + 1, n_grid, scratch, 'grid%d' % w)))
        for w in range(W):
            procs.append(('seq', run_harness(exe, ['seq'], ctx.seed * 1000 + 500 + w + 1, n_seq, scratch, 'seq%d' % w)))
        # toolchain images (built while the rapidcheck workers run)
        images = toolchain.shipped_images(scratch, include_xhexb=not quick)
        img_procs = []
        for name, img, inp in images:
            d = os.path.join(scratch, 'img-' + name)
            os.makedirs(d, exist_ok=True)
            ip = os.path.join(d, 'input')
            open(ip, 'wb').write(inp)
            env = driver.san_env({'C02_OUT': os.path.join(d, 'out.json'), 'C02_FAIL': os.path.join(d, 'fail.json'), 'C02_DIR': d})
            img_procs.append((name, img, inp, d, subprocess.Popen([exe, 'image', img, ip, '60000000'], stdout=subprocess.PIPE, stderr=subprocess.PIPE, env=env)))
        grid_distinct = 0
        for kind, (p, d) in procs:
            so, se = p.communicate()
            outp = os.path.join(d, 'out.json')
            if os.path.exists(outp):
                o = json.load(open(outp))
                if kind == 'grid':
                    ctx.evaluations += o['defined_grid_steps'] + o['undefined'] + o['out_of_domain']
                else:
                    ctx.evaluations += o['cases']
                ctx.nontrivial_extra += o['distinct']
                ctx.discarded['undefined_encoding'] += o['undefined']
                ctx.discarded['out_of_domain'] += o['out_of_domain']
                for k, v in o['classes'].items():
                    ctx.classes[kind + ':' + k] += v
                for s in o['samples'][:1]:
                    ctx.sample({kind: s})
                ctx.notes['steps_compared'] = ctx.notes.get('steps_compared', 0) + o['steps']
            fp = os.path.join(d, 'fail.json')
            if os.path.exists(fp):
                report(ctx, exe, json.load(open(fp)), scratch)
            elif p.returncode != 0:
                ctx.error('c02 %s worker exited %d without a counterexample: %s' % (kind, p.returncode, se.decode(errors='replace')[-1500:]))
        for name, img, inp, d, p in img_procs:
            so, se = p.communicate()
            outp = os.path.join(d, 'out.json')
            if os.path.exists(outp):
                o = json.load(open(outp))
                ctx.evaluations += 1
                ctx.nontrivial_extra += o['distinct']
                ctx.notes['steps_compared'] = ctx.notes.get('steps_compared', 0) + o['steps']
                ctx.notes.setdefault('images', {})[name] = o['steps']
                for k, v in o['classes'].items():
                    ctx.classes['image:' + k] += v
            fp = os.path.join(d, 'fail.json')
            if os.path.exists(fp):
                case = json.load(open(fp))
                case['name'] = name
                if not case.get('file'):
                    case['file'] = open(img, 'rb').read().hex()
                case.pop('path', None)
                report(ctx, exe, case, scratch)
            elif p.returncode != 0:
                ctx.error('c02 image %s exited %d: %s' % (name, p.returncode, se.decode(errors='replace')[-1500:]))
        ctx.min_nontrivial = 1000


def replay(path):
    case = driver.load_json(path)
    exe = build.exe('c02')
    with driver.Scratch('c02r') as scratch:
        f, d = rerun_case(exe, case, scratch)
    print('replay %s: %s %s' % (path, 'FAIL' if f else 'PASS', d))
    if f:
        print('VIOLATION property=C02 replay=%s' % path)
    return 1 if f else 0
