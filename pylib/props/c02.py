"""C02 - hexsim executes every instruction exactly as the Hex ISA defines.

hexsim::Processor (HEX_VERIF hook: planted state, observer stops after every
instruction) runs in lock-step with refisa (written from hexb.pdf).  Compared after
every step: pc/areg/breg/oreg, the stored word, console bytes and input position at
system calls; per case: full 800000-byte memory compare, simout<n> files, run()'s
return value.  Steps that leave the defined domain end the case (counted).
"""
import json
import os
import subprocess

from .. import lockstep

RULE = ('grid: rapidcheck-generated architectural state (corner/random registers, memory steered so that effective addresses are in range '
        'by construction) x all 256 instruction bytes; seq: generated instruction sequences (prefix chains 0-8, all three system calls, '
        'console and file streams, reads at/past end of input) loaded through the real loader; images: tests/asm and tests/x programs '
        'built by the working-tree hexasm/xcmp with inputs. Non-trivial = a (byte,state) step with a defined meaning, or a '
        'sequence/image that executed >= 8 steps before leaving the domain; distinct by hash of (byte, registers) / image bytes.')


ASSUME = ['refisa is a faithful transcription of hexb.pdf (validated by selftest against tests/asm outputs)',
          'hexsim memory is zeroed by the harness before each case (uninitialised memory is C12\'s subject)',
          'one file index is used in one direction only within a case (shared connected[] flag in the reference)']


def run(ctx):
    ctx.rule = RULE
    ctx.assumptions = ASSUME
    lockstep.run(ctx, 'C02', 'c02', (6000, 150000), (6000, 150000))


def replay(path):
    return lockstep.replay(path, 'C02', 'c02', 'C02')
