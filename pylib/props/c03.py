"""C03 - the Verilog processor is cycle-for-cycle equivalent to the ISA.

The Verilated design (hex_pkg.sv hex.sv processor.sv memory.sv, --public-flat-rw) is
clocked next to refisa.  Grid: registers and memory words are planted directly, the
combinational outputs sampled, one rising edge applied.  Sequences/images: memory
zeroed, image loaded, proper reset, then one refisa step per clock; at an SVC the
harness services the call for both sides from refisa's I/O model.  Compared per clock:
pc/areg/breg/oreg, the write port (valid&we, address, data) before the edge and the
memory word after it, o_syscall_valid == (ISA decode says SVC), o_syscall == areg[1:0];
per case: every word below 200000.
Domain (from the property): word addresses < 200000, byte addresses (pc, LDAP results,
branch targets) < 800000, oreg values reachable from reset (low nibble zero).
"""
from .. import lockstep

RULE = ('grid: rapidcheck-generated state restricted to the common range (oreg drawn only from values reachable from reset: 0, x<<4, '
        '0xFFFFFF00|x<<4; branch/LDAP targets steered below 800000) x all 256 instruction bytes; seq: generated instruction sequences from '
        'reset; images: shipped programs built by the working-tree tools. Non-trivial = a (byte,state) clock with a defined meaning inside '
        'the common range, or a sequence/image of >= 8 clocks; distinct by hash of (byte, registers) / image bytes.')
ASSUME = ['refisa is a faithful transcription of hexb.pdf',
          'states with a non-zero low nibble in oreg are unreachable from reset and outside the property (RTL decodes OPR from the instruction nibble)',
          'system calls are serviced by the harness from the reference I/O model (the hextb shim is C06\'s subject)',
          'memory_q is zeroed before an image is loaded (Verilator would otherwise randomise words the ISA model holds as zero)']


def run(ctx):
    ctx.rule = RULE
    ctx.assumptions = ASSUME
    lockstep.run(ctx, 'C03', 'c03', (30000, 400000), (15000, 300000))


def replay(path):
    return lockstep.replay(path, 'C03', 'c03', 'C03')
