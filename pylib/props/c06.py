"""C06 - a binary behaves identically on the RTL testbench (hextb) and on the simulator (hexsim).

Binaries come from G-X programs (real xcmp) and G-ASM tour programs (real hexasm), with generated
inputs.  Both real executables run with stdin a regular file opened by the driver: the file offset after
exit is the number of bytes the program consumed.  Oracle: hextb's stdout minus its one-line load banner
equals hexsim's stdout; exit statuses, stdin offsets and simout files are equal; and all of it equals the
prediction of the reference (xref for X programs, the tour's permutation for assembly).
"""
import os
import re
import subprocess

from .. import asmgen, build, driver, hyp, toolchain, xcase, xgen, xlang, xref

RULE = ('binaries of G-X programs (xcmp) and of G-ASM tours (hexasm) x generated inputs (console and simin files); programs never read memory '
        'they have not written (xref definedness check / construction). Non-trivial = >= 1 input byte consumed or >= 1 output byte, and >= 50 '
        'instructions; distinct by hash of (source, input).')
BANNER = re.compile(rb'^Wrote \d+ bytes to memory\n')
SEED = '+verilator+seed+1'


def run_exe(exe, args, cwd, inp, timeout=120):
    ip = os.path.join(cwd, 'stdin.bin')
    with open(ip, 'wb') as f:
        f.write(inp)
    fd = os.open(ip, os.O_RDONLY)
    try:
        r = subprocess.run([exe] + args, cwd=cwd, stdin=fd, stdout=subprocess.PIPE, stderr=subprocess.PIPE, timeout=timeout)
        used = os.lseek(fd, 0, os.SEEK_CUR)
    except subprocess.TimeoutExpired:
        return None
    finally:
        os.close(fd)
    files = {}
    for i in range(8):
        p = os.path.join(cwd, 'simout%d' % i)
        if os.path.exists(p):
            files[i] = open(p, 'rb').read()
    return dict(rc=r.returncode, out=r.stdout, err=r.stderr, used=used, files=files)


def both(img, inp, files, scratch, limit, seed=SEED):
    res = {}
    for tool in ('hexsim', 'hextb'):
        d = os.path.join(scratch, tool)
        os.makedirs(d, exist_ok=True)
        for k, v in files.items():
            open(os.path.join(d, 'simin%d' % k), 'wb').write(v)
        if tool == 'hexsim':
            exe, args = toolchain.tool('hexsim'), [img, '--max-cycles', str(limit)]
        else:
            exe, args = os.path.join(build.build('hextb'), 'hextb'), [img, '--max-cycles', str(limit + 64), seed]
        res[tool] = run_exe(exe, args, d, inp)
    return res


def compare(res, exp_out, exp_rc, exp_used, exp_files):
    s, t = res['hexsim'], res['hextb']
    if s is None or t is None:
        return 'hang: %s did not finish' % ('hexsim' if s is None else 'hextb')
    m = BANNER.match(t['out'])
    if not m:
        return 'banner: hextb output does not start with its load banner: %r' % t['out'][:60]
    tout = t['out'][m.end():]
    if tout != s['out']:
        return 'stdout: hextb wrote %r, hexsim wrote %r' % (tout[:40], s['out'][:40])
    if t['rc'] != s['rc']:
        return 'status: hextb exited with %d, hexsim with %d (stderr %r / %r)' % (t['rc'], s['rc'], t['err'][:80], s['err'][:80])
    if t['used'] != s['used']:
        return 'input: hextb consumed %d bytes of stdin, hexsim %d' % (t['used'], s['used'])
    if t['files'] != s['files']:
        return 'files: simout files differ: hextb %r, hexsim %r' % ({k: v[:20] for k, v in t['files'].items()}, {k: v[:20] for k, v in s['files'].items()})
    # both wrong together is also caught: compare with the reference prediction
    if s['out'] != exp_out:
        return 'reference: both print %r, the reference predicts %r' % (s['out'][:40], exp_out[:40])
    if s['rc'] != exp_rc & 0xFF:
        return 'reference: both exit with %d, the reference predicts %d' % (s['rc'], exp_rc & 0xFF)
    if exp_used is not None and s['used'] != exp_used:
        return 'reference: both consume %d input bytes, the reference predicts %d' % (s['used'], exp_used)
    if exp_files is not None and s['files'] != exp_files:
        return 'reference: simout files %r, the reference predicts %r' % (s['files'], exp_files)
    return ''


@driver.hang_is_failure(lambda why: ('fail', why, None))
def check_x(P, inp, files, tier, scratch):
    try:
        I = xcase.interpret(P, inp, files, tier)
    except xref.Undefined as u:
        return 'undefined', str(u), None
    src = xlang.p_prog(P)
    sp = os.path.join(scratch, 'p.x')
    open(sp, 'w', encoding='latin-1').write(src)
    img = os.path.join(scratch, 'p.bin')
    ok, r = toolchain.compile_x(sp, img, scratch)
    if not ok:
        return 'fail', 'rejected: xcmp produced no binary: %r' % r.stderr[:200], I
    res = both(img, inp, files, scratch, 1000 * I.steps + 100000)
    exp_files = {k: bytes(v) for k, v in I.out.items() if k != 'con'}
    why = compare(res, bytes(I.out.get('con', b'')), I.exit, I.pos, exp_files)
    return ('fail' if why else 'ok'), why, I


@driver.hang_is_failure(lambda why: ('fail', why))
def check_tour(items, expected, inp, scratch):
    sp = os.path.join(scratch, 'p.S')
    open(sp, 'w', encoding='latin-1').write(asmgen.render(items))
    img = os.path.join(scratch, 'p.bin')
    ok, r = toolchain.assemble(sp, img, scratch)
    if not ok:
        return 'fail', 'rejected: hexasm produced no binary: %r' % r.stderr[:200]
    res = both(img, inp, {}, scratch, 100000)
    why = compare(res, expected, 0, 0, {})
    return ('fail' if why else 'ok'), why


def gen_case(rng, stats, extra):
    tier = extra['tier']
    with driver.Scratch('c06') as scratch:
        if rng.random() < 0.25:
            items, expected = asmgen.gen_tour(rng, huge=0.15)
            inp = bytes(rng.randrange(256) for _ in range(rng.randint(0, 3)))
            verdict, why = check_tour(items, expected, inp, scratch)
            key = (asmgen.render(items), inp)
            nt = len(expected) >= 1
            classes = ['family:tour', 'verdict:' + verdict] + (['image>64KiB'] if any(it[0] == 'pad' and it[1] > 60000 for it in items) else [])
            case = dict(kind='tour', items=[list(i) for i in items], expected=expected.hex(), input=inp.hex())
            sample = {'family': 'tour', 'source': asmgen.render(items)[:400]}
        else:
            P, inp, files = xgen.gen_program(rng, tier)
            verdict, why, I = check_x(P, inp, files, tier, scratch)
            if verdict == 'undefined':
                stats.discard(why)
                return
            if I is None:
                raise hyp.Failure(xcase.case_dict(P, inp, files, {'tier': tier}), why)      # a tool did not finish
            src = xlang.p_prog(P)
            key = (src, inp)
            nt = (I.pos > 0 or any(len(v) for v in I.out.values())) and I.steps >= 20
            classes = ['family:x', 'verdict:' + verdict] + [c for c in sorted(I.feat) if c in ('read', 'eof-read', 'file-read', 'file-write', 'write', 'recursion')]
            case = xcase.case_dict(P, inp, files, {'tier': tier})
            sample = {'family': 'x', 'source': src[:500], 'input': inp.hex(), 'console': bytes(I.out.get('con', b'')).hex()[:60], 'exit': I.exit}
    stats.case(key=key, classes=classes, nontrivial=nt, sample=sample)
    if verdict == 'fail':
        raise hyp.Failure(case, why)


def replay_case(case):
    with driver.Scratch('c06r') as s:
        if case['kind'] == 'tour':
            return check_tour([tuple(i) for i in case['items']], bytes.fromhex(case['expected']), bytes.fromhex(case['input']), s)
        P, inp, files = xcase.case_load(case)
        v, why, _ = check_x(P, inp, files, case.get('tier', 'quick'), s)
        return v, why


def report(ctx, case, why):
    res = [replay_case(case) for _ in range(3)]
    if sum(1 for v, _ in res if v == 'fail') < 3:
        ctx.flaky.append({'why': why})
        return
    if case['kind'] == 'x':
        from .. import xmin
        P, inp, files = xcase.case_load(case)
        cat = res[-1][1].split(':')[0]

        def still(P2, i2, f2):
            with driver.Scratch('c06m') as s:
                v, w, _ = check_x(P2, i2, f2, case.get('tier', 'quick'), s)
            return v == 'fail' and w.split(':')[0] == cat
        P, inp, files = xmin.minimise(P, inp, files, still, budget=150)
        case = xcase.case_dict(P, inp, files, {'tier': case.get('tier', 'quick')})
    v, w = replay_case(case)
    ctx.violation(case, (w or why) + ('\n--- program ---\n' + case['source'] if 'source' in case else ''))


def run(ctx):
    ctx.rule = RULE
    ctx.assumptions = ['hextb runs with a fixed +verilator+seed+1 (seed dependence is C13\'s subject)',
                       'only observables are compared: registers may legitimately hold different never-written words',
                       'bytes consumed = file offset of the regular-file stdin after exit (glibc repositions it)']
    build.build_many(['tool-xcmp', 'tool-hexasm', 'tool-hexsim', 'hextb'])
    quick = ctx.tier == 'quick'
    for path in driver.regress_files('C06'):
        case = driver.load_json(path)
        v, why = replay_case(case)
        ctx.evaluations += 1
        if v == 'fail':
            ctx.violation(case, 'regression corpus %s: %s' % (os.path.basename(path), why))
    failures = hyp.fan_out(ctx, 'pylib.props.c06', 'gen_case', 700 if quick else 12000, extra={'tier': ctx.tier})
    seen = set()
    for f in failures:
        c = f['why'].split(':')[0]
        if c not in seen:
            seen.add(c)
            report(ctx, f['case'], f['why'])
    if not quick:
        # the self-compiling compiler on both: a multi-million-instruction run
        with driver.Scratch('c06x') as scratch:
            img = os.path.join(scratch, 'xhexb.bin')
            ok, r = toolchain.assemble(os.path.join(build.REPO, 'tests/asm/xhexb.S'), img, scratch)
            if ok:
                for name in ('hello_prints.x', 'fib.x', 'echo_char.x'):
                    inp = open(os.path.join(build.REPO, 'tests/x', name), 'rb').read()
                    res = both(img, inp, {}, os.path.join(scratch, name), 100000000) if os.makedirs(os.path.join(scratch, name), exist_ok=True) is None else None
                    s = res['hexsim']
                    why = compare(res, s['out'] if s else b'', s['rc'] if s else 0, None, None)
                    ctx.evaluations += 1
                    ctx.nontrivial_hashes.add('xhexb:' + name)
                    if why:
                        ctx.violation(dict(kind='xhexb', input_file=name), 'xhexb.S compiling %s: %s' % (name, why))
    ctx.min_nontrivial = 100


def replay(path):
    case = driver.load_json(path)
    build.build_many(['tool-xcmp', 'tool-hexasm', 'tool-hexsim', 'hextb'])
    if case['kind'] == 'xhexb':
        print('replay of the xhexb case: run the thorough tier')
        return 0
    v, why = replay_case(case)
    print('replay %s: %s %s' % (path, v, why[:400]))
    if v == 'fail':
        print('VIOLATION property=C06 replay=%s' % path)
        return 1
    return 0
