"""C09 - xcmp accepts or cleanly rejects every input.

Byte-level half: libFuzzer target src/fuzz_xcmp.cpp (ASan+UBSan, asserts on, token-level custom mutator, two
campaigns: seeded corpus and empty corpus).  The oracle is inside the target: no sanitizer report / abort /
foreign exception; a diagnostic implies that no binary exists and that a reported line lies inside the input;
acceptance implies a binary whose header word fits; accepted inputs are recompiled under two heap fills and
must give the same binary (use of an uninitialised value); every 8th input goes through every other driver
action.  Structured half: Hypothesis-generated "unusual" programs (pylib/xunusual.py) through `xtool accept`
and the plain xcmp executable (hang detection, exit status 0/1).  The thorough tier adds valgrind on the real
executable over a sample.
"""
import glob
import json
import os
import subprocess

from .. import build, driver, fuzzprop, hyp, toolchain, xcase, xunusual

RULE = ('byte strings <= 4096: coverage-guided mutations (byte-level and token-level: delete/duplicate/swap/replace a token or a run of tokens) '
        'of tests/x programs and of small construct-covering programs, plus a campaign from an empty corpus; and grammar-generated programs with '
        'one to three of %d discipline-breaking mutations. Non-trivial = the input got past the parser or was rejected with a diagnostic after '
        '>= 12 bytes; distinct = size of the final libFuzzer corpus (coverage-distinct inputs) + distinct unusual sources.' % len(xunusual.MUTATIONS))
CORPUS = os.path.join(driver.CORPUS, 'x')


def plain_crashes(data):
    """Does the production executable (default 8 MB stack) die on this input?"""
    with driver.Scratch('c09p') as s:
        p = os.path.join(s, 'in.x')
        open(p, 'wb').write(data)
        try:
            r = subprocess.run([toolchain.tool('xcmp'), p, '-o', os.path.join(s, 'o.bin')], stdout=subprocess.PIPE, stderr=subprocess.PIPE, cwd=s, timeout=60)
        except subprocess.TimeoutExpired:
            return True
        return r.returncode not in (0, 1)


def accept_check(text, scratch):
    """Structured oracle. Returns '' or a description."""
    sp = os.path.join(scratch, 'u.x')
    open(sp, 'w', encoding='latin-1').write(text)
    try:
        r = subprocess.run([build.exe('xtool'), 'accept', sp], stdout=subprocess.PIPE, stderr=subprocess.PIPE, env=driver.san_env(), cwd=scratch, timeout=30)
    except subprocess.TimeoutExpired:
        return 'hang: xtool accept did not finish within 30 s'
    if r.returncode != 0:
        err = r.stderr.decode(errors='replace')
        if 'stack-overflow' in err and not plain_crashes(open(sp, 'rb').read()):
            return ''    # instrumentation artefact: the production executable handles this input with the default stack
        return 'crash: ' + xcase.crash_signature(err) + '\n' + err[-1500:]
    o = json.loads(r.stdout.decode())
    names = ['EMIT_BINARY', 'EMIT_TOKENS', 'EMIT_TREE', 'EMIT_OPTIMISED_TREE', 'EMIT_INTERMEDIATE_INSTS', 'EMIT_LOWERED_INSTS', 'EMIT_OPTIMISED_INSTS', 'EMIT_ASM']
    for nm, a in zip(names, o['actions']):
        if not a['ok'] and a['err_type'] not in ('hexutil::Error', 'std::exception'):
            return 'status: %s neither succeeded nor raised a diagnostic (%s)' % (nm, a['err_what'])
        if nm == 'EMIT_BINARY':
            if not a['ok'] and a['file_exists']:
                return 'emit: a diagnostic was reported (%s) but a binary was emitted' % a['err_what']
            if a['ok'] and not a.get('header_fits', False):
                return 'emit: accepted but the binary is missing or its header word does not fit'
        elif a['file_exists']:
            return 'emit: %s wrote a binary file' % nm
    # the production executable: terminates, exit status 0 or 1
    try:
        p = subprocess.run([toolchain.tool('xcmp'), sp, '-o', os.path.join(scratch, 'u.bin')], stdout=subprocess.PIPE, stderr=subprocess.PIPE, cwd=scratch, timeout=20)
    except subprocess.TimeoutExpired:
        return 'hang: xcmp did not finish within 20 s'
    if p.returncode not in (0, 1):
        return 'crash: the xcmp executable died with status %d' % p.returncode
    if (p.returncode == 0) != o['actions'][0]['ok']:
        return 'status: xcmp exit status %d but in-process acceptance is %s' % (p.returncode, o['actions'][0]['ok'])
    return ''


def gen_case(rng, stats, extra):
    text = xunusual.gen_source(rng)
    with driver.Scratch('c09') as scratch:
        why = accept_check(text, scratch)
    stats.case(key=text, classes=['unusual', 'verdict:' + ('fail' if why else 'ok')], nontrivial=True, sample={'unusual_source': text[:500]})
    if why:
        raise hyp.Failure(dict(kind='unusual', source=text), why)


def check_input(case):
    with driver.Scratch('c09r') as s:
        if case['kind'] == 'unusual':
            why = accept_check(case['source'], s)
            return bool(why), why
        exe = os.path.join(build.build('fuzz-xcmp'), 'fuzz-xcmp')
        p = os.path.join(s, 'input')
        open(p, 'wb').write(bytes.fromhex(case['input_hex']))
        c, sig, rep = fuzzprop.run_one(exe, p, s)
        return c, (sig + '\n' + rep[-1500:]) if c else ''


def run(ctx):
    ctx.rule = RULE
    ctx.assumptions = ['MSan is unusable here (no instrumented libstdc++): uninitialised values are caught when they reach the output (two heap fills) or by the valgrind sample',
                       'a stack overflow counts only if the production xcmp with the default 8 MB stack also dies on the same <= 4 KB input',
                       'a timeout counts only if the input hangs alone three times with a 60 s limit; leak reports are disabled (a leak on an error path is not UB)']
    build.build_many(['fuzz-xcmp', 'xtool', 'tool-xcmp'])
    quick = ctx.tier == 'quick'
    exe = os.path.join(build.build('fuzz-xcmp'), 'fuzz-xcmp')
    # regression inputs first
    for path in driver.regress_files('C09'):
        case = driver.load_json(path)
        bad, why = check_input(case)
        ctx.evaluations += 1
        if bad:
            fnd = [f for f in ctx.findings if f.witness and os.path.basename(f.witness) == os.path.basename(path)]
            if fnd and fnd[0].state == 'known':
                ctx.known_finding(fnd[0], why.split('\n')[0][:160])
            else:
                ctx.violation(case, 'regression corpus %s: %s' % (os.path.basename(path), why))
    with driver.Scratch('c09f') as scratch:
        secs = 30 if quick else 600
        exe, arts, totals = fuzzprop.campaign(ctx, 'fuzz-xcmp', [CORPUS, None], secs if not quick else 18, scratch, seed=ctx.seed)
        ctx.evaluations += totals.get('execs', 0)
        ctx.notes['fuzz_counters'] = totals
        ctx.nontrivial_extra += sum(c['final_corpus'] for c in ctx.notes.get('campaigns', []))
        ctx.classes['fuzz:accepted'] += totals.get('accepted', 0)
        ctx.classes['fuzz:rejected-lexer/parser'] += totals.get('rejected_lex_parse', 0)
        ctx.classes['fuzz:rejected-semantic'] += totals.get('rejected_semantic', 0)
        ctx.classes['fuzz:heap-fill-determinism-checks'] += totals.get('det_checks', 0)
        ctx.classes['fuzz:other-driver-actions'] += totals.get('other_actions', 0)
        for f in sorted(glob.glob(os.path.join(scratch, 'camp0', 'corpus', '*')))[:3]:
            ctx.sample({'fuzz_corpus_entry': open(f, 'rb').read()[:300].decode('latin-1')})
        buckets = fuzzprop.triage(ctx, exe, arts, scratch, plain_check=plain_crashes)
        for sig, (data, rep) in sorted(buckets.items()):
            data = fuzzprop.minimise_crash(exe, data, sig, scratch) if sig != 'hang' else data
            case = dict(kind='fuzz', input_hex=data.hex(), input_text=data.decode('latin-1')[:2000], signature=sig)
            known = [f for f in ctx.findings if f.state == 'known' and f.match and f.match in sig]
            if known:
                ctx.known_finding(known[0], sig)
            else:
                ctx.violation(case, sig + '\n' + rep[-1800:])
    failures = hyp.fan_out(ctx, 'pylib.props.c09', 'gen_case', 120 if quick else 5000, extra={'tier': ctx.tier})
    seen = set()
    for f in failures:
        c = f['why'].split('\n')[0][:80]
        if c in seen:
            continue
        seen.add(c)
        res = [check_input(f['case']) for _ in range(3)]
        if sum(1 for b, _ in res if b) < 3:
            ctx.flaky.append({'why': c})
            continue
        ctx.violation(f['case'], res[-1][1] + '\n--- source ---\n' + f['case']['source'][:1500])
    if not quick:
        valgrind_sample(ctx)
    ctx.min_nontrivial = 200


def valgrind_sample(ctx):
    """valgrind --error-exitcode=99 on the real xcmp over a sample of the corpus and of unusual programs."""
    import random
    r = random.Random(ctx.seed)
    srcs = [open(f, encoding='latin-1').read() for f in sorted(glob.glob(os.path.join(CORPUS, '*')))[:12]]
    srcs += [xunusual.gen_source(r) for _ in range(36)]
    jobs = []
    with driver.Scratch('c09v') as s:
        for i, t in enumerate(srcs):
            p = os.path.join(s, 'v%d.x' % i)
            open(p, 'w', encoding='latin-1').write(t)
            jobs.append(['valgrind', '-q', '--error-exitcode=99', toolchain.tool('xcmp'), p, '-o', os.path.join(s, 'v%d.bin' % i)])
        res = driver.run_parallel(jobs, timeout=300, cwd=s)
        n = 0
        for (rc, so, se), t in zip(res, srcs):
            n += 1
            if rc == 99:
                ctx.violation(dict(kind='unusual', source=t, note='valgrind'), 'valgrind reports an error in xcmp:\n' + se.decode(errors='replace')[-1500:])
        ctx.notes['valgrind_runs'] = n
        ctx.evaluations += n


def replay(path):
    case = driver.load_json(path)
    build.build_many(['fuzz-xcmp', 'xtool', 'tool-xcmp'])
    bad, why = check_input(case)
    print('replay %s: %s %s' % (path, 'FAIL' if bad else 'PASS', why[:600]))
    if bad:
        print('VIOLATION property=C09 replay=%s' % path)
        return 1
    return 0
