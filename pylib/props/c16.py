"""C16 - processor.v (verilog/ and synth/ copies) is behaviourally identical to processor.sv.

Three processor-only Verilated models (processor.sv, verilog/processor.v, synth/processor.v)
get the same registers, fetched byte, memory read data and reset, and must show the same
outputs before the clock edge and the same registers after it - for all 256 fetched bytes,
including undefined opcodes (the claim is equivalence of designs, not ISA conformance).
Two full designs (hex.sv + memory.sv with processor.sv / with processor.v) are clocked
in lock-step from reset on generated sequences and the shipped programs.
"""
import json
import os
import re
import subprocess

from .. import build, driver, toolchain, lockstep

RULE = ('grid: rapidcheck (pc, areg, breg, oreg [any value], memory read data, reset) x all 256 fetched bytes on three processor-only '
        'models; seq/images: instruction sequences and shipped programs on two full designs from reset. Non-trivial = every grid '
        'transition (each compares all outputs and next state), sequences of >= 8 clocks; distinct by hash of the case.')
P = 'C16'


def tokens(path):
    s = open(path).read()
    s = re.sub(r'//[^\n]*', '', s)
    s = re.sub(r'/\*.*?\*/', '', s, flags=re.S)
    return re.findall(r"[A-Za-z_$][A-Za-z0-9_$]*|\d+'[sS]?[bBdDhHoO][0-9a-fA-FxXzZ_?]+|\d+|\S", s)


def rerun_case(exe, case, scratch):
    d = os.path.join(scratch, 'rerun')
    os.makedirs(d, exist_ok=True)
    fp = os.path.join(d, 'fail.json')
    try:
        os.unlink(fp)
    except OSError:
        pass
    env = dict(os.environ, C16_FAIL=fp)
    if case['kind'] == 'grid':
        args = ['state'] + [str(case[k]) for k in ('pc', 'areg', 'breg', 'oreg', 'ddata')] + ['1' if case['rst'] else '0', str(case.get('byte', -1))]
    else:
        img = os.path.join(d, 'replay.bin')
        inp = os.path.join(d, 'replay.in')
        open(img, 'wb').write(bytes.fromhex(case['file']))
        open(inp, 'wb').write(bytes.fromhex(case.get('input', '')))
        args = ['image', img, inp, str(case.get('max_steps', 50000000))]
    r = subprocess.run([exe] + args, stdout=subprocess.PIPE, stderr=subprocess.PIPE, env=env)
    if os.path.exists(fp):
        return True, json.load(open(fp)).get('diff', '')
    if r.returncode != 0:
        return True, 'harness exited %d: %s' % (r.returncode, r.stderr.decode(errors='replace')[-800:])
    return False, ''


def report(ctx, exe, case, scratch):
    res = [rerun_case(exe, case, scratch) for _ in range(3)]
    fails = sum(1 for f, _ in res if f)
    if fails < 3:
        ctx.flaky.append({'case': case, 'fails_of_3': fails})
        return
    ctx.violation(case, res[-1][1] or case.get('diff', ''))


def run(ctx):
    ctx.rule = RULE
    ctx.assumptions = ['Verilator 5.006 two-state simulation (x-propagation differences between the files are not observable)',
                       'system calls in the full-design runs are serviced identically for both designs by the harness']
    exe = build.exe('c16')
    quick = ctx.tier == 'quick'
    ta = tokens(os.path.join(build.REPO, 'verilog/processor.v'))
    tb = tokens(os.path.join(build.REPO, 'synth/processor.v'))
    ctx.notes['copies_token_identical'] = (ta == tb)
    ctx.notes['copies_note'] = 'synth/processor.v is always built as a third model and joins the grid, whether or not the token streams are equal'
    with driver.Scratch('c16') as scratch:
        for path in driver.regress_files('C16'):
            case = driver.load_json(path)
            f, d = rerun_case(exe, case, scratch)
            ctx.evaluations += 1
            if f:
                ctx.violation(case, 'regression corpus %s: %s' % (os.path.basename(path), d))
        procs = []
        n_grid = 30000 if quick else 400000
        n_seq = 15000 if quick else 300000
        for kind, n, off in (('grid', n_grid, 0), ('seq', n_seq, 500)):
            for w in range(driver.NCPU):
                d = os.path.join(scratch, '%s%d' % (kind, w))
                os.makedirs(d)
                env = dict(os.environ, RC_PARAMS='seed=%d max_success=%d max_size=100' % (ctx.seed * 1000 + off + w + 1, n),
                           C16_OUT=os.path.join(d, 'out.json'), C16_FAIL=os.path.join(d, 'fail.json'))
                procs.append((kind, d, subprocess.Popen([exe, kind], stdout=subprocess.PIPE, stderr=subprocess.PIPE, env=env)))
        for name, img, inp in toolchain.shipped_images(scratch, include_xhexb=not quick):
            d = os.path.join(scratch, 'img-' + name)
            os.makedirs(d)
            ip = os.path.join(d, 'input')
            open(ip, 'wb').write(inp)
            env = dict(os.environ, C16_OUT=os.path.join(d, 'out.json'), C16_FAIL=os.path.join(d, 'fail.json'))
            procs.append(('image:' + name, d, subprocess.Popen([exe, 'image', img, ip, '60000000'], stdout=subprocess.PIPE, stderr=subprocess.PIPE, env=env)))
        for kind, d, p in procs:
            so, se = p.communicate()
            op = os.path.join(d, 'out.json')
            if os.path.exists(op):
                o = json.load(open(op))
                ctx.evaluations += o['transitions'] if kind == 'grid' else o['cases']
                ctx.nontrivial_extra += o['distinct']
                ctx.notes['transitions_compared'] = ctx.notes.get('transitions_compared', 0) + o['transitions']
                ctx.notes['clocks_compared'] = ctx.notes.get('clocks_compared', 0) + o['clocks']
                for k, v in o['classes'].items():
                    ctx.classes[kind.split(':')[0] + ':' + k] += v
                for s in o['samples'][:1]:
                    ctx.sample({kind: s})
            fp = os.path.join(d, 'fail.json')
            if os.path.exists(fp):
                case = json.load(open(fp))
                if case['kind'] == 'image' and not case.get('file') and case.get('path'):
                    case['file'] = open(case.pop('path'), 'rb').read().hex()
                report(ctx, exe, case, scratch)
            elif p.returncode != 0:
                ctx.error('c16 %s exited %d: %s' % (kind, p.returncode, se.decode(errors='replace')[-1200:]))
        ctx.min_nontrivial = 1000


def replay(path):
    case = driver.load_json(path)
    exe = build.exe('c16')
    with driver.Scratch('c16r') as scratch:
        f, d = rerun_case(exe, case, scratch)
    print('replay %s: %s %s' % (path, 'FAIL' if f else 'PASS', d))
    if f:
        print('VIOLATION property=C16 replay=%s' % path)
    return 1 if f else 0
