"""C17 - listings agree with the binary they describe.

For generated assembly programs (`hexasm --instrs` vs `hexasm -o`) and generated X programs
(`xcmp -S` vs `xcmp -o`), real executables: every instruction/DATA line of the listing is decoded
from the image at the listed offset with the ISA prefix rule and must consume exactly the listed
number of bytes and yield the listed mnemonic and operand (the value in parentheses for label
operands); offsets are ordered and non-overlapping; everything between entries and after the last
one is zero.  The PADDING line and the trailing total are ignored (pinned by the unit tests).
"""
import os
import struct
import subprocess

from .. import asmgen, build, driver, hyp, listing, toolchain

RULE = ('assembly: the three G-ASM families of C05 (random multi-label programs, boundary sweeps, tours) through the real hexasm twice '
        '(--instrs, -o); X: G-X programs of C01 through the real xcmp twice (-S, -o). Non-trivial = listing with >= 1 label-operand line '
        'and >= 1 multi-byte instruction; distinct by source hash.')


@driver.hang_is_failure(lambda why: ('fail', why, {}))
def asm_case(items, scratch, style=0):
    text = asmgen.render(items, style)
    sp = os.path.join(scratch, 'p.S')
    open(sp, 'w', encoding='latin-1').write(text)
    hexasm = toolchain.tool('hexasm')
    r1 = subprocess.run([hexasm, sp, '--instrs'], stdout=subprocess.PIPE, stderr=subprocess.PIPE, cwd=scratch, timeout=20)
    outp = os.path.join(scratch, 'p.bin')
    try:
        os.unlink(outp)
    except OSError:
        pass
    r2 = subprocess.run([hexasm, sp, '-o', outp], stdout=subprocess.PIPE, stderr=subprocess.PIPE, cwd=scratch, timeout=20)
    rejected1 = r1.returncode != 0 or r1.stderr.startswith(b'Error')
    rejected2 = r2.returncode != 0 or r2.stderr.startswith(b'Error') or not os.path.exists(outp)
    if rejected1 or rejected2:
        if rejected1 != rejected2:
            return 'fail', 'listing run and binary run disagree on acceptance (%r / %r)' % (r1.stderr[:80], r2.stderr[:80]), {}
        return 'rejected', '', {}
    fb = open(outp, 'rb').read()
    hw = struct.unpack('<I', fb[:4])[0]
    image = fb[4:4 + 4 * hw]
    ok, why, st = listing.check(r1.stdout.decode(errors='replace'), image)
    return ('ok' if ok else 'fail'), why, st


@driver.hang_is_failure(lambda why: ('fail', why, {}))
def x_case(src, scratch):
    sp = os.path.join(scratch, 'p.x')
    open(sp, 'w', encoding='latin-1').write(src)
    xcmp = toolchain.tool('xcmp')
    r1 = subprocess.run([xcmp, sp, '-S'], stdout=subprocess.PIPE, stderr=subprocess.PIPE, cwd=scratch, timeout=30)
    outp = os.path.join(scratch, 'p.bin')
    ok2, r2 = toolchain.compile_x(sp, outp, scratch)
    rejected1 = r1.returncode != 0
    if rejected1 or not ok2:
        if rejected1 != (not ok2):
            return 'fail', 'listing run and binary run disagree on acceptance', {}
        return 'rejected', '', {}
    fb = open(outp, 'rb').read()
    hw = struct.unpack('<I', fb[:4])[0]
    image = fb[4:4 + 4 * hw]
    ok, why, st = listing.check(r1.stdout.decode(errors='replace'), image)
    return ('ok' if ok else 'fail'), why, st


def gen_case(rng, stats, extra):
    x = rng.random()
    with driver.Scratch('c17') as scratch:
        if x < extra.get('x_share', 0.0):
            from .. import xgen, xlang
            prog, inp, _files = xgen.gen_program(rng, extra['tier'])
            src = xlang.p_prog(prog)
            verdict, why, st = x_case(src, scratch)
            fam = 'x'
            case = dict(kind='x', source=src)
            key = src
        else:
            if x < 0.3:
                items, _ = asmgen.gen_tour(rng)
                fam = 'tour'
            else:
                items = asmgen.gen_random_program(rng, big=(rng.random() < 0.2), huge=(extra['tier'] == 'thorough' and rng.random() < 0.03))
                items, _ = asmgen.fix_absolute_alignment(items, rng)
                fam = 'random'
            style = rng.randint(0, 10) if rng.random() < 0.3 else 0
            verdict, why, st = asm_case(items, scratch, style)
            case = dict(kind='asm', items=[list(i) for i in items], style=style)
            key = asmgen.render(items)
    nt = verdict == 'ok' and st.get('label_operand', 0) >= 1 and st.get('multibyte', 0) >= 1
    stats.case(key=key, classes=['family:' + fam, 'verdict:' + verdict], nontrivial=nt,
               sample={'family': fam, 'source': key[:500], 'listing_stats': st})
    if verdict == 'fail':
        raise hyp.Failure(case, why)


def check_case(case):
    with driver.Scratch('c17r') as scratch:
        if case['kind'] == 'x':
            v, why, _ = x_case(case['source'], scratch)
        else:
            v, why, _ = asm_case([tuple(i) for i in case['items']], scratch, case.get('style', 0))
    return v, why


def report(ctx, case, why):
    res = [check_case(case) for _ in range(3)]
    if sum(1 for v, _ in res if v == 'fail') < 3:
        ctx.flaky.append({'case': case, 'why': why})
        return
    if case['kind'] == 'asm':
        # greedy item minimisation keeping the failure category
        cat = res[-1][1].split(' ')[0]
        items = [tuple(i) for i in case['items']]
        budget = 200
        changed = True
        while changed and budget > 0:
            changed = False
            for i in range(len(items) - 1, -1, -1):
                cand = items[:i] + items[i + 1:]
                labels = set(it[1] for it in cand if it[0] in ('label', 'func', 'proc'))
                if not cand or any(it[0] == 'ref' and it[2] not in labels for it in cand):
                    continue
                budget -= 1
                v, w = check_case(dict(case, items=cand))
                if v == 'fail' and w.split(' ')[0] == cat:
                    items = cand
                    changed = True
        case = dict(case, items=[list(i) for i in items], source=asmgen.render(items, case.get('style', 0)))
    v, why2 = check_case(case)
    ctx.violation(case, why2 or why)


def _sweep_worker(chunk):
    n = 0
    fails = []
    for key, items in chunk:
        with driver.Scratch('c17s') as scratch:
            v, why, st = asm_case(items, scratch)
        n += 1
        if v == 'fail':
            fails.append((list(key), [list(i) for i in items], why))
            if len(fails) >= 3:
                break        # three failing members of the family are enough (each may have cost a time-out)
    return n, fails


def run(ctx):
    ctx.rule = RULE
    ctx.assumptions = ['the PADDING line and the trailing "<n> bytes" total are not checked (their current values are pinned by tests/unit exit_tree)',
                       'label lines are constrained by order only']
    build.build_many(['tool-hexasm', 'tool-xcmp'])
    quick = ctx.tier == 'quick'
    for path in driver.regress_files('C17'):
        case = driver.load_json(path)
        v, why = check_case(case)
        ctx.evaluations += 1
        if v == 'fail':
            ctx.violation(case, 'regression corpus %s: %s' % (os.path.basename(path), why))
    sweep = list(asmgen.boundary_sweep_programs([16, 256, 4096] if quick else [16, 256, 4096, 65536]))
    # growth chains: layouts that need one pass per link (a listing printed from a layout that stopped early is stale)
    sweep += list(asmgen.growth_chain_programs([5, 12, 40, 100] if quick else [5, 12, 40, 100, 300, 1000]))
    import multiprocessing
    W = driver.NCPU
    with multiprocessing.get_context('fork').Pool(W) as pool:
        res = pool.map(_sweep_worker, [sweep[i::W] for i in range(W)])
    rep = 0
    for n, fails in res:
        ctx.evaluations += n
        ctx.classes['family:sweep'] += n
        for key, items, why in fails:
            if rep < 2:
                report(ctx, dict(kind='asm', items=items, style=0, sweep_key=key), why)
                rep += 1
    for k, _ in sweep:
        ctx.nontrivial_hashes.add('sweep:' + repr(k))
    try:
        from .. import xgen  # noqa: F401
        x_share = 0.35
    except ImportError:
        x_share = 0.0
        ctx.notes['x_part'] = 'G-X generator not available in this build of the framework'
    failures = hyp.fan_out(ctx, 'pylib.props.c17', 'gen_case', 1200 if quick else 20000, extra={'tier': ctx.tier, 'x_share': x_share})
    seen = set()
    for f in failures:
        k = f['why'].split(' ')[0]
        if k in seen:
            continue
        seen.add(k)
        report(ctx, f['case'], f['why'])
    ctx.min_nontrivial = 200


def replay(path):
    case = driver.load_json(path)
    build.build_many(['tool-hexasm', 'tool-xcmp'])
    v, why = check_case(case)
    print('replay %s: %s %s' % (path, v, why))
    if v == 'fail':
        print('VIOLATION property=C17 replay=%s' % path)
        return 1
    return 0
