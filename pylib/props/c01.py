"""C01 - xcmp preserves X source semantics in the binaries it emits.

Generated (program, input) pairs (G-X) are interpreted by the reference interpreter xref (written from
xhexnotes.pdf, over the generator's AST - xcmp's lexer and parser are inside the tested path), which
also decides whether the pair is in the property's domain.  The program text is compiled in-process by
xcmp::Driver::run(EMIT_BINARY) (sanitizer build); the image runs on the range-checked ISA reference and
on hexsim::Processor::run().  Oracle: bytes per output stream, input bytes consumed per stream and the
32-bit exit value equal xref's; compiler rejection, crash, sanitizer report, range fault or runaway are
failures.
"""
import os

from .. import build, driver, hyp, xcase, xgen, xlang, xmin, xref

RULE = ('G-X: typed top-down generator (0-4 vals incl. chains and pool-boundary values, 0-4 global vars, 0-3 arrays, 0-8 procedures/functions '
        'in shuffled order with shadowing names, value and array formals, array+length pairs, string actuals (0..255 characters, bytes up to 0xFE, whole-word probes), recursion and mutual recursion '
        'templates, all ten operators, associative chains, redundant parentheses, counter and free loops, reads/writes on console and file '
        'streams) x generated input bytes; pairs outside the domain (overflow, comparison-difference overflow, order-dependent side effects, '
        'unassigned reads, bad subscripts, depth/step budget) are discarded by xref and counted per reason. Non-trivial = xref executed a user '
        'call below main or a loop iteration or an array access or I/O other than the final exit, and >= 30 interpreter steps; distinct by '
        'hash of (source, input).')


def static_classes(P):
    cl = []
    gnames = set(g[1] for g in P['globals'])
    for p in P['procs']:
        names = set(n for _, n in p['formals']) | set(l[1] for l in p['locals'])
        if names & gnames:
            cl.append('shadowing')
            break
    if any(len(p['formals']) >= 5 for p in P['procs']):
        cl.append('many-formals')
    if any(len(p['locals']) >= 13 for p in P['procs']):
        cl.append('large-frame')
    return cl


def expr_depth(e):
    if not isinstance(e, tuple):
        return 0
    return 1 + max([expr_depth(x) for x in e if isinstance(x, tuple)] +
                   [expr_depth(y) for x in e if isinstance(x, list) for y in x] + [0])


def check_pair(P, inp, files, tier, scratch):
    """Returns (verdict, why, interp). verdict: ok | undefined | fail."""
    try:
        I = xcase.interpret(P, inp, files, tier)
    except xref.Undefined as u:
        return 'undefined', str(u), None
    except RecursionError:
        return 'undefined', 'python-recursion', None
    src = xlang.p_prog(P)
    st, res, err = xcase.run_xtool(src, inp, files, scratch, max_cycles=1000 * I.steps + 100000)
    if st == 'timeout':
        return 'fail', 'hang: xtool did not finish within 60 s', I
    if st == 'crash':
        return 'fail', 'crash: ' + xcase.crash_signature(err) + '\n' + err[-1200:], I
    why = xcase.compare(I, res)
    return ('fail' if why else 'ok'), why, I


def gen_case(rng, stats, extra):
    tier = extra['tier']
    P, inp, files = xgen.gen_program(rng, tier, extra.get('mode', 'normal'))
    with driver.Scratch('c01') as scratch:
        verdict, why, I = check_pair(P, inp, files, tier, scratch)
    if verdict == 'undefined':
        stats.discard(why)
        return
    classes = sorted(I.feat) + static_classes(P) + ['verdict:' + verdict]
    src = xlang.p_prog(P)
    stats.case(key=(src, inp), classes=classes, nontrivial=I.nontrivial(),
               sample={'source': src[:1500], 'input': inp.hex(), 'exit': I.exit, 'console': bytes(I.out.get('con', b'')).hex()[:80], 'interpreter_steps': I.steps})
    if verdict == 'fail':
        raise hyp.Failure(xcase.case_dict(P, inp, files, {'tier': tier}), why)


def category(why):
    head = why.split(':')[0]
    if head == 'crash':
        return why.split('\n')[0][:120]
    return head


def confirm_and_minimise(case, why, tier):
    P, inp, files = xcase.case_load(case)
    cat = category(why)
    if cat == 'hang':
        driver.TIMEOUT_SCALE = 10     # a timeout is confirmed with ten times the budget before it is believed

    def still(P2, inp2, files2):
        with driver.Scratch('c01m') as s:
            v, w, _ = check_pair(P2, inp2, files2, tier, s)
        return v == 'fail' and category(w) == cat
    fails = 0
    for _ in range(3):
        if still(P, inp, files):
            fails += 1
    if fails < 3:
        return None, fails
    P, inp, files = xmin.minimise(P, inp, files, still, budget=400)
    with driver.Scratch('c01m') as s:
        v, w, _ = check_pair(P, inp, files, tier, s)
    return (xcase.case_dict(P, inp, files, {'tier': tier}), w if v == 'fail' else why), 3


def report(ctx, case, why):
    res, fails = confirm_and_minimise(case, why, ctx.tier)
    if res is None:
        ctx.flaky.append({'why': why[:300], 'fails_of_3': fails, 'source': case.get('source', '')[:400]})
        return
    mcase, mwhy = res
    for f in ctx.findings:
        if f.state == 'known' and f.match and MATCHERS.get(f.match, lambda c, w: False)(mcase, mwhy):
            ctx.known_finding(f, mwhy.split('\n')[0][:200])
            return
    ctx.violation(mcase, mwhy + '\n--- minimised program ---\n' + mcase['source'] + '--- input ' + mcase['input'])


MATCHERS = {}


def replay_case(case, tier=None):
    P, inp, files = xcase.case_load(case)
    with driver.Scratch('c01r') as s:
        return check_pair(P, inp, files, tier or case.get('tier', 'quick'), s)[:2]


def run(ctx):
    ctx.rule = RULE
    ctx.assumptions = ['xref implements the language definition of xhexnotes.pdf (selftest: reproduces the expected results of tests/x)',
                       'stop = exit value 0; reading past end of input yields 255; conditions are boolean-typed',
                       'evaluation order between the operands of a non-short-circuit operator, between subscript and right-hand side, and '
                       'between actuals (apart from I/O, which is left to right) is left open: conflicting pairs are outside the domain',
                       'the condition of an if with two skip arms contains no call (xcmp documents dropping such statements)',
                       'a string literal is packed byte for byte (length byte first, bytes 0x80..0xFE denote themselves); character constants are '
                       'ASCII (the value of a non-ASCII character constant is not defined by the language notes) and 0xFF never occurs in a source '
                       '(xcmp\'s lexer takes it for end of file)']
    build.build_many(['xtool'])
    quick = ctx.tier == 'quick'
    for path in driver.regress_files('C01'):
        case = driver.load_json(path)
        v, why = replay_case(case)
        ctx.evaluations += 1
        if v == 'undefined':
            ctx.error('regression case %s is outside the domain (%s)' % (os.path.basename(path), why))
        if v == 'fail':
            fnd = [f for f in ctx.findings if f.witness and os.path.basename(f.witness) == os.path.basename(path)]
            if fnd and fnd[0].state == 'known':
                ctx.known_finding(fnd[0], why.split('\n')[0][:200])
            else:
                ctx.violation(case, 'regression corpus %s: %s' % (os.path.basename(path), why))
    failures = hyp.fan_out(ctx, 'pylib.props.c01', 'gen_case', 900 if quick else 30000, extra={'tier': ctx.tier})
    seen = set()
    for f in failures:
        c = category(f['why'])
        if c in seen:
            continue
        seen.add(c)
        report(ctx, f['case'], f['why'])
    total = ctx.evaluations + sum(ctx.discarded.values())
    if total and sum(ctx.discarded.values()) > 0.6 * total:
        ctx.error('generator degenerated: %d of %d pairs were outside the domain' % (sum(ctx.discarded.values()), total))
    ctx.min_nontrivial = 300


def replay(path):
    case = driver.load_json(path)
    build.build_many(['xtool'])
    v, why = replay_case(case)
    print('replay %s: %s %s' % (path, v, why[:500]))
    if v == 'fail':
        print('VIOLATION property=C01 replay=%s' % path)
        return 1
    return 0
