"""C08 - generated code stays inside its memory regions and balances the stack.

Well-defined X programs (G-X, plus a *deep* mode: recursion up to the stack budget, and a *full*
mode: arrays filling the top of memory) are compiled by xcmp and executed on the ISA reference with
an access monitor (src/refmon.hpp).  Everything the monitor uses is derived from the binary: S0 =
mem[1] at load; image data words = words 1 .. (target of the initial BR)/4 - 1; code words = words an
instruction was fetched from.  Checked on-line: every fetch/load/store below 200000 words (refisa
faults otherwise); no store to a fetched word and no fetch from a stored word; every store lands in an
image data word or above the image; after every store to word 1, mem[1] <= S0; whenever control
reaches the return address the start stub passed to main, mem[1] == S0.
"""
import os

from .. import build, driver, hyp, xcase, xgen, xlang, xmin, xref

RULE = ('G-X programs in three modes: normal (as C01), deep (a recursive function called with depth 50..12000, i.e. up to ~75% of the free '
        'stack space), full (one array of 1000..189936 words whose first and last cells are touched) x generated inputs; pairs outside the '
        'domain are discarded by xref. Non-trivial = >= 1 call below main or an array access; distinct by hash of (source, input).')


def check_pair(P, inp, files, tier, mode, scratch):
    try:
        I = xcase.interpret(P, inp, files, tier, mode=mode)
    except xref.Undefined as u:
        return 'undefined', str(u), None, None
    src = xlang.p_prog(P)
    st, res, err = xcase.run_xtool(src, inp, files, scratch, max_cycles=1000 * I.steps + 100000, extra=['--no-sim'])
    if st != 'ok':
        return 'fail', 'crash: ' + (xcase.crash_signature(err) if st == 'crash' else 'timeout'), I, None
    if not res['compiled']:
        return 'fail', 'rejected: %s %s' % (res['err_type'], res['err_what']), I, res
    if res['ref_status'] != 'exited':
        return 'fail', 'range: execution on the ISA reference ended with %s after %d steps (an access outside the 200000-word memory, or a runaway)' % (res['ref_status'], res['ref_steps']), I, res
    mon = res['monitor']
    if mon['violations']:
        v = mon['violations'][0]
        return 'fail', '%s: at step %d, word %d, value %d (S0=%d, image data words 1..%d, image %d words)' % (
            v['kind'], v['step'], v['addr'], v['value'], mon['s0'], mon['data_end'] - 1, res['image_words']), I, res
    if I.exit == 0 and 'main-returned' in getattr(I, 'feat', ()):
        pass
    return 'ok', '', I, res


def gen_case(rng, stats, extra):
    tier = extra['tier']
    x = rng.random()
    mode = 'normal' if x < 0.6 else ('deep' if x < 0.8 else 'full')
    P, inp, files = xgen.gen_program(rng, tier, mode)
    with driver.Scratch('c08') as scratch:
        verdict, why, I, res = check_pair(P, inp, files, tier, mode, scratch)
    if verdict == 'undefined':
        stats.discard(why)
        return
    src = xlang.p_prog(P)
    classes = ['mode:' + mode, 'verdict:' + verdict]
    sample = None
    if res and res.get('monitor'):
        mon = res['monitor']
        used = mon['s0'] - mon['min_sp']
        classes.append('stack-words:' + ('<16' if used < 16 else '<256' if used < 256 else '<4096' if used < 4096 else '<65536' if used < 65536 else '>=65536'))
        if mon['main_returns']:
            classes.append('main-returned')
        if mon['highest_store'] >= 199990:
            classes.append('store-near-top-of-memory')
        classes.append('depth:' + ('<4' if I.max_depth_seen < 4 else '<64' if I.max_depth_seen < 64 else '<1024' if I.max_depth_seen < 1024 else '>=1024'))
        sample = {'mode': mode, 'source': src[:700], 'monitor': {k: mon[k] for k in ('s0', 'min_sp', 'data_end', 'highest_store', 'main_returns', 'stores', 'loads')}}
    nt = I.counts['calls'] > 1 or I.counts['arrayops'] > 0
    stats.case(key=(src, inp), classes=classes, nontrivial=nt, sample=sample)
    if verdict == 'fail':
        raise hyp.Failure(xcase.case_dict(P, inp, files, {'tier': tier, 'mode': mode}), why)


def replay_case(case):
    P, inp, files = xcase.case_load(case)
    with driver.Scratch('c08r') as s:
        v, why, _, _ = check_pair(P, inp, files, case.get('tier', 'quick'), case.get('mode', 'normal'), s)
    return v, why


def report(ctx, case, why):
    P, inp, files = xcase.case_load(case)
    tier, mode = case.get('tier', 'quick'), case.get('mode', 'normal')
    cat = why.split(':')[0]
    if 'timeout' in why:
        driver.TIMEOUT_SCALE = 10

    def still(P2, i2, f2):
        with driver.Scratch('c08m') as s:
            v, w, _, _ = check_pair(P2, i2, f2, tier, mode, s)
        return v == 'fail' and w.split(':')[0] == cat
    if sum(1 for _ in range(3) if still(P, inp, files)) < 3:
        ctx.flaky.append({'why': why, 'source': case['source'][:400]})
        return
    P, inp, files = xmin.minimise(P, inp, files, still, budget=300)
    mcase = xcase.case_dict(P, inp, files, {'tier': tier, 'mode': mode})
    v, w = replay_case(mcase)
    ctx.violation(mcase, (w or why) + '\n--- minimised program ---\n' + mcase['source'])


def run(ctx):
    ctx.rule = RULE
    ctx.assumptions = ['regions are derived from the binary (initial BR target, words fetched from), not from compiler constants',
                       'the start stub is LDAP <ret>; BR main: the first LDAP executed gives main\'s return address',
                       'deep mode keeps depth x estimated frame size below the free space with a margin, so a collision cannot be the generator\'s fault']
    build.build_many(['xtool'])
    quick = ctx.tier == 'quick'
    for path in driver.regress_files('C08') + [p for p in driver.regress_files('C01') if 'exit-stub' in p]:
        case = driver.load_json(path)
        v, why = replay_case(case)
        ctx.evaluations += 1
        if v == 'fail':
            ctx.violation(case, 'regression corpus %s: %s' % (os.path.basename(path), why))
    failures = hyp.fan_out(ctx, 'pylib.props.c08', 'gen_case', 450 if quick else 25000, extra={'tier': ctx.tier})
    seen = set()
    for f in failures:
        c = f['why'].split(':')[0]
        if c not in seen:
            seen.add(c)
            report(ctx, f['case'], f['why'])
    ctx.min_nontrivial = 200


def replay(path):
    case = driver.load_json(path)
    build.build_many(['xtool'])
    v, why = replay_case(case)
    print('replay %s: %s %s' % (path, v, why[:400]))
    if v == 'fail':
        print('VIOLATION property=C08 replay=%s' % path)
        return 1
    return 0
