"""C10 - hexasm accepts or cleanly rejects every input.

Byte-level half: libFuzzer target src/fuzz_hexasm.cpp (Lexer::loadBuffer -> Parser::parseProgram -> CodeGen ->
emitProgramText/emitBin and the tokeniser), same in-target oracle as C09 (diagnostic => no image; acceptance =>
image whose header word fits; two heap fills give the same image and listing).  Layout termination is observed
through the libFuzzer timeout, confirmed by three 60 s re-runs.  Structured half: Hypothesis-generated unusual
assembly (undefined / duplicated / keyword-like labels, 10-30 digit literals, '-' or an opcode at end of file,
OPR followed by anything, stray operands, FUNC/PROC without a name, NUL and high bytes) through asmtool and the
plain hexasm executable.
"""
import glob
import json
import os
import subprocess

from .. import asmgen, build, driver, fuzzprop, hyp, toolchain, xcase

RULE = ('byte strings <= 4096: coverage-guided mutations (byte-level and token-level: delete/duplicate/swap/replace a token or a run of tokens) '
        'of tests/asm programs (xhexb.S truncated to 200 lines) and of small generated programs, plus a campaign from an empty corpus; and generated assembly programs with '
        'one of %d irregularities. Non-trivial = the input got past the parser or was rejected with a diagnostic after '
        '>= 12 bytes; distinct = size of the final libFuzzer corpus (coverage-distinct inputs) + distinct unusual sources.' % len(asmgen.UNUSUAL))
CORPUS = os.path.join(driver.CORPUS, 'asm')


def plain_crashes(data):
    """Does the production executable (default 8 MB stack) die on this input?"""
    with driver.Scratch('c10p') as s:
        p = os.path.join(s, 'in.S')
        open(p, 'wb').write(data)
        try:
            r = subprocess.run([toolchain.tool('hexasm'), p, '-o', os.path.join(s, 'o.bin')], stdout=subprocess.PIPE, stderr=subprocess.PIPE, cwd=s, timeout=60)
        except subprocess.TimeoutExpired:
            return True
        return r.returncode not in (0, 1)


def accept_check(text, scratch):
    """Structured oracle. Returns '' or a description."""
    sp = os.path.join(scratch, 'u.S')
    open(sp, 'w', encoding='latin-1').write(text)
    outp = os.path.join(scratch, 'u.bin')
    try:
        r = subprocess.run([build.exe('asmtool'), sp, '--out', outp], stdout=subprocess.PIPE, stderr=subprocess.PIPE, env=driver.san_env(), cwd=scratch, timeout=20)
    except subprocess.TimeoutExpired:
        return 'hang: the assembler did not finish within 20 s'
    if r.returncode != 0:
        err = r.stderr.decode(errors='replace')
        if 'stack-overflow' in err and not plain_crashes(open(sp, 'rb').read()):
            return ''    # instrumentation artefact: the production executable handles this input with the default stack
        return 'crash: ' + xcase.crash_signature(err) + '\n' + err[-1500:]
    o = json.loads(r.stdout.decode())
    if not o['ok']:
        if o['err_type'] not in ('hexutil::Error', 'std::exception'):
            return 'status: neither accepted nor a diagnostic'
        if os.path.exists(outp):
            return 'emit: a diagnostic was reported (%s) but an image was emitted' % o['err_what']
    else:
        fb = bytes.fromhex(o['file'])
        if len(fb) < 4 or 4 + 4 * int.from_bytes(fb[:4], 'little') > len(fb):
            return 'emit: accepted but the header word does not fit the file'
    exe_out = os.path.join(scratch, 'e.bin')
    try:
        p = subprocess.run([toolchain.tool('hexasm'), sp, '-o', exe_out], stdout=subprocess.PIPE, stderr=subprocess.PIPE, cwd=scratch, timeout=20)
    except subprocess.TimeoutExpired:
        return 'hang: hexasm did not finish within 20 s'
    if p.returncode not in (0, 1):
        return 'crash: the hexasm executable died with status %d' % p.returncode
    if (p.returncode == 0) != o['ok']:
        return 'status: hexasm exit status %d but in-process acceptance is %s (%s)' % (p.returncode, o['ok'], o['err_what'])
    if p.returncode != 0 and os.path.exists(exe_out):
        return 'emit: hexasm failed but left %s behind' % os.path.basename(exe_out)
    return ''


def gen_case(rng, stats, extra):
    text = asmgen.gen_unusual(rng)
    with driver.Scratch('c10') as scratch:
        why = accept_check(text, scratch)
    stats.case(key=text, classes=['unusual', 'unusual:' + str(asmgen.LAST['kind']), 'verdict:' + ('fail' if why else 'ok')], nontrivial=True, sample={'unusual_source': text[:500]})
    if why:
        raise hyp.Failure(dict(kind='unusual', source=text), why)


def check_input(case):
    with driver.Scratch('c10r') as s:
        if case['kind'] == 'unusual':
            why = accept_check(case['source'], s)
            return bool(why), why
        exe = os.path.join(build.build('fuzz-hexasm'), 'fuzz-hexasm')
        p = os.path.join(s, 'input')
        open(p, 'wb').write(bytes.fromhex(case['input_hex']))
        c, sig, rep = fuzzprop.run_one(exe, p, s)
        return c, (sig + '\n' + rep[-1500:]) if c else ''


def run(ctx):
    ctx.rule = RULE
    ctx.assumptions = ['MSan is unusable here (no instrumented libstdc++): uninitialised values are caught when they reach the output (two heap fills) or by the valgrind sample',
                       'a stack overflow counts only if the production hexasm with the default 8 MB stack also dies on the same <= 4 KB input',
                       'a timeout counts only if the input hangs alone three times with a 60 s limit; leak reports are disabled (a leak on an error path is not UB)']
    build.build_many(['fuzz-hexasm', 'asmtool', 'tool-hexasm'])
    quick = ctx.tier == 'quick'
    exe = os.path.join(build.build('fuzz-hexasm'), 'fuzz-hexasm')
    # regression inputs first
    for path in driver.regress_files('C10'):
        case = driver.load_json(path)
        bad, why = check_input(case)
        ctx.evaluations += 1
        if bad:
            fnd = [f for f in ctx.findings if f.witness and os.path.basename(f.witness) == os.path.basename(path)]
            if fnd and fnd[0].state == 'known':
                ctx.known_finding(fnd[0], why.split('\n')[0][:160])
            else:
                ctx.violation(case, 'regression corpus %s: %s' % (os.path.basename(path), why))
    with driver.Scratch('c10f') as scratch:
        secs = 30 if quick else 600
        exe, arts, totals = fuzzprop.campaign(ctx, 'fuzz-hexasm', [CORPUS, None], secs if not quick else 18, scratch, seed=ctx.seed)
        ctx.evaluations += totals.get('execs', 0)
        ctx.notes['fuzz_counters'] = totals
        ctx.nontrivial_extra += sum(c['final_corpus'] for c in ctx.notes.get('campaigns', []))
        ctx.classes['fuzz:accepted'] += totals.get('accepted', 0)
        ctx.classes['fuzz:rejected-lexer/parser'] += totals.get('rejected_lex_parse', 0)
        ctx.classes['fuzz:rejected-semantic'] += totals.get('rejected_semantic', 0)
        ctx.classes['fuzz:heap-fill-determinism-checks'] += totals.get('det_checks', 0)
        ctx.classes['fuzz:tokeniser-runs'] += totals.get('other_actions', 0)
        for f in sorted(glob.glob(os.path.join(scratch, 'camp0', 'corpus', '*')))[:3]:
            ctx.sample({'fuzz_corpus_entry': open(f, 'rb').read()[:300].decode('latin-1')})
        buckets = fuzzprop.triage(ctx, exe, arts, scratch, plain_check=plain_crashes)
        for sig, (data, rep) in sorted(buckets.items()):
            data = fuzzprop.minimise_crash(exe, data, sig, scratch) if sig != 'hang' else data
            case = dict(kind='fuzz', input_hex=data.hex(), input_text=data.decode('latin-1')[:2000], signature=sig)
            known = [f for f in ctx.findings if f.state == 'known' and f.match and f.match in sig]
            if known:
                ctx.known_finding(known[0], sig)
            else:
                ctx.violation(case, sig + '\n' + rep[-1800:])
    failures = hyp.fan_out(ctx, 'pylib.props.c10', 'gen_case', 120 if quick else 5000, extra={'tier': ctx.tier})
    seen = set()
    for f in failures:
        c = f['why'].split('\n')[0][:80]
        if c in seen:
            continue
        seen.add(c)
        res = [check_input(f['case']) for _ in range(3)]
        if sum(1 for b, _ in res if b) < 3:
            ctx.flaky.append({'why': c})
            continue
        ctx.violation(f['case'], res[-1][1] + '\n--- source ---\n' + f['case']['source'][:1500])
    if not quick:
        valgrind_sample(ctx)
    ctx.min_nontrivial = 200


def valgrind_sample(ctx):
    """valgrind --error-exitcode=99 on the real hexasm over a sample."""
    import random
    r = random.Random(ctx.seed)
    srcs = [open(f, encoding='latin-1').read() for f in sorted(glob.glob(os.path.join(CORPUS, '*')))[:10]]
    srcs += [asmgen.gen_unusual(r) for _ in range(40)]
    jobs = []
    with driver.Scratch('c10v') as s:
        for i, t in enumerate(srcs):
            p = os.path.join(s, 'v%d.S' % i)
            open(p, 'w', encoding='latin-1').write(t)
            jobs.append(['valgrind', '-q', '--error-exitcode=99', toolchain.tool('hexasm'), p, '-o', os.path.join(s, 'v%d.bin' % i)])
        res = driver.run_parallel(jobs, timeout=300, cwd=s)
        n = 0
        for (rc, so, se), t in zip(res, srcs):
            n += 1
            if rc == 99:
                ctx.violation(dict(kind='unusual', source=t, note='valgrind'), 'valgrind reports an error in hexasm:\n' + se.decode(errors='replace')[-1500:])
        ctx.notes['valgrind_runs'] = n
        ctx.evaluations += n


def replay(path):
    case = driver.load_json(path)
    build.build_many(['fuzz-hexasm', 'asmtool', 'tool-hexasm'])
    bad, why = check_input(case)
    print('replay %s: %s %s' % (path, 'FAIL' if bad else 'PASS', why[:600]))
    if bad:
        print('VIOLATION property=C10 replay=%s' % path)
        return 1
    return 0
