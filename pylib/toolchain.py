"""The real executables built from /repo's working tree, and helpers around them."""
import os
import shutil
import subprocess

from . import build

REPO = build.REPO


def tool(name):
    return build.exe('tool-' + name)


def run_tool(name, args, cwd, stdin=None, timeout=120, env=None):
    return subprocess.run([tool(name)] + args, cwd=cwd, stdin=stdin, stdout=subprocess.PIPE, stderr=subprocess.PIPE,
                          timeout=timeout, env=env)


def compile_x(src_path, out_path, cwd):
    """xcmp SRC -o OUT. Returns (ok, CompletedProcess). The binary is looked for under the
    requested name first, then under the default a.out (see C14: -o handling)."""
    for stale in (out_path, os.path.join(cwd, 'a.out')):
        try:
            os.unlink(stale)
        except OSError:
            pass
    r = run_tool('xcmp', [src_path, '-o', out_path], cwd)
    if r.returncode != 0:
        return False, r
    if os.path.exists(out_path):
        return True, r
    alt = os.path.join(cwd, 'a.out')
    if os.path.exists(alt):
        shutil.move(alt, out_path)
        return True, r
    return False, r


def assemble(src_path, out_path, cwd):
    try:
        os.unlink(out_path)
    except OSError:
        pass
    r = run_tool('hexasm', [src_path, '-o', out_path], cwd)
    ok = r.returncode == 0 and os.path.exists(out_path) and not r.stderr.startswith(b'Error')
    return ok, r


X_INPUTS = {
    'mul.x': [bytes([3, 13]), bytes([13, 3])],
    'div.x': [bytes([13, 3]), bytes([1, 1])],
    'fib.x': [bytes([6]), bytes([0])],
    'fac.x': [bytes([5])],
    'mul2.x': [bytes([3, 4])],
    'exp2.x': [bytes([4])],
    'hello_putval.x': [b''],
    'hello_prints.x': [b''],
    'printn.x': [bytes([42]), bytes([127])],
    'printhex.x': [bytes([42])],
    'strlen.x': [b''],
    'bubblesort.x': [b''],
    'echo_char.x': [b'x', b''],
    'exit.x': [b''],
    'globals.x': [b''],
}


def shipped_images(scratch, include_xhexb=False):
    """Build the shipped test programs with the working-tree tools.
    Returns [(name, image_path, input_bytes)]."""
    out = []
    d = os.path.join(scratch, 'shipped')
    os.makedirs(d, exist_ok=True)
    for s in ('exit0.S', 'exit255.S', 'hello.S', 'hello_procedure.S'):
        img = os.path.join(d, s + '.bin')
        ok, r = assemble(os.path.join(REPO, 'tests/asm', s), img, d)
        if ok:
            out.append((s, img, b''))
    for x, inputs in sorted(X_INPUTS.items()):
        src = os.path.join(REPO, 'tests/x', x)
        if not os.path.exists(src):
            continue
        img = os.path.join(d, x + '.bin')
        ok, r = compile_x(src, img, d)
        if ok:
            for i, inp in enumerate(inputs):
                out.append(('%s#%d' % (x, i), img, inp))
    # large images through the real loader: tours with a filler of 70 KB, 205 KB and 400 KB (memory is 800 000 bytes)
    import random
    from . import asmgen
    for k, size in enumerate((70000, 205000, 400000)):
        rr = random.Random(1000 + k)
        items, expected = asmgen.gen_tour(rr, huge=1.0)
        items = [(('pad', size) if (it[0] == 'pad' and it[1] > 60000) else it) for it in items]
        sp = os.path.join(d, 'bigtour%d.S' % k)
        with open(sp, 'w') as f:
            f.write(asmgen.render(items))
        img = os.path.join(d, 'bigtour%d.bin' % k)
        ok, r = assemble(sp, img, d)
        if ok:
            out.append(('bigtour-%d' % size, img, b''))
    if include_xhexb:
        img = os.path.join(d, 'xhexb.S.bin')
        ok, r = assemble(os.path.join(REPO, 'tests/asm', 'xhexb.S'), img, d)
        if ok:
            out.append(('xhexb.S<hello_prints.x', img, open(os.path.join(REPO, 'tests/x/hello_prints.x'), 'rb').read()))
            out.append(('xhexb.S<fib.x', img, open(os.path.join(REPO, 'tests/x/fib.x'), 'rb').read()))
        img2 = os.path.join(d, 'xhexb.x.bin')
        ok, r = compile_x(os.path.join(REPO, 'tests/x', 'xhexb.x'), img2, d)
        if ok:
            out.append(('xhexb.x<hello_putval.x', img2, open(os.path.join(REPO, 'tests/x/hello_putval.x'), 'rb').read()))
    return out
