"""Running one (X program, input) pair through the reference interpreter and through xtool (xcmp + refisa + hexsim)."""
import json
import os
import subprocess

from . import build, driver, xlang, xref

M32 = 0xFFFFFFFF


def interpret(P, inp, files, tier='quick', wrap=False, mode='normal'):
    """Reference result or raises xref.Undefined.  Returns the Interp (after run) with .exit set."""
    lim = (20000, 40) if tier == 'quick' else (200000, 400)
    if mode == 'deep':
        lim = (3000000, 13000)
    I = xref.Interp(P, inp, files, max_steps=lim[0], max_depth=lim[1], wrap=wrap)
    I.exit = I.run()
    return I


def run_xtool(src, inp, files, scratch, max_cycles, extra=(), timeout=60):
    sp = os.path.join(scratch, 'p.x')
    with open(sp, 'w', encoding='latin-1') as f:
        f.write(src)
    ip = os.path.join(scratch, 'input')
    with open(ip, 'wb') as f:
        f.write(inp)
    for i in range(8):
        p = os.path.join(scratch, 'simin%d' % i)
        if i in files:
            with open(p, 'wb') as f:
                f.write(files[i])
        elif os.path.exists(p):
            os.unlink(p)
    cmd = [build.exe('xtool'), 'run', sp, '--in', ip, '--max-cycles', str(max_cycles), '--ref-steps', str(max_cycles)] + list(extra)
    try:
        r = subprocess.run(cmd, stdout=subprocess.PIPE, stderr=subprocess.PIPE, env=driver.san_env(), cwd=scratch, timeout=timeout * driver.TIMEOUT_SCALE)
    except subprocess.TimeoutExpired:
        return 'timeout', None, ''
    if r.returncode != 0:
        return 'crash', None, r.stderr.decode(errors='replace')[-2500:]
    try:
        return 'ok', json.loads(r.stdout.decode()), ''
    except Exception:
        return 'crash', None, 'unparsable xtool output ' + r.stdout.decode(errors='replace')[-300:]


def crash_signature(err):
    """Short, line-number-free signature of a sanitizer/abort report (for bucketing)."""
    import re
    m = re.search(r'(runtime error: [^\n]*|AddressSanitizer: [a-zA-Z-]+|Assertion `[^\']*\' failed|SEGV[^\n]*)', err)
    kind = m.group(1) if m else 'crash'
    kind = re.sub(r'0x[0-9a-f]+', 'ADDR', kind)
    kind = re.sub(r'-?\d+', 'N', kind)
    fn = re.search(r'#\d+ 0x[0-9a-f]+ in ((?:xcmp|hexasm|hexsim)::[A-Za-z0-9_:~]+)', err)
    return (kind[:90] + ' @ ' + (fn.group(1) if fn else '?'))


def compare(I, res):
    """xref vs refisa vs hexsim.  Returns '' or a description starting with a category word."""
    if not res['compiled']:
        return 'rejected: compiler rejected a well-defined program: %s %s %s' % (res['err_type'], res['err_loc'], res['err_what'])
    exp_exit = I.exit & M32
    exp_out = bytes(I.out.get('con', b''))
    if res['ref_status'] == 'step_limit':
        return 'runaway: the binary did not finish within %d instructions (reference interpreter: %d steps)' % (res['ref_steps'], I.steps)
    if res['ref_status'] != 'exited':
        return 'range: execution on the ISA reference ended with %s after %d steps' % (res['ref_status'], res['ref_steps'])
    for side in ('ref', 'sim'):
        if side == 'sim':
            if not res.get('sim_ran'):
                continue
            if res['sim_error']:
                return 'sim: hexsim threw: ' + res['sim_error']
            if res['sim_still_running']:
                return 'sim: hexsim hit the cycle limit'
        out = bytes.fromhex(res[side + '_out'])
        if out != exp_out:
            return 'output: %s wrote %r to the console, the language definition gives %r' % (side, out[:40], exp_out[:40])
        if res[side + '_consumed'] != I.pos:
            return 'input: %s consumed %d input bytes, the language definition gives %d' % (side, res[side + '_consumed'], I.pos)
        if res[side + '_exit'] != exp_exit:
            return 'exit: %s exit value %d, the language definition gives %d' % (side, res[side + '_exit'], exp_exit)
        fo = res[side + '_fileout']
        for k in range(8):
            exp = bytes(I.out.get(k, b''))
            got = bytes.fromhex(fo.get(str(k), ''))
            if got != exp or ((str(k) in fo) != (k in I.out)):
                return 'fileout: %s simout%d holds %r, the language definition gives %r' % (side, k, got[:30], exp[:30])
    fc = res['ref_filein_consumed']
    for k in I.used_in:
        if fc.get(str(k), 0) != I.fpos.get(k, 0):
            return 'input: simin%d consumed %d, the language definition gives %d' % (k, fc.get(str(k), 0), I.fpos.get(k, 0))
    return ''


def case_dict(P, inp, files, extra=None):
    d = dict(kind='x', program=P, source=xlang.p_prog(P), input=inp.hex(), files={str(k): v.hex() for k, v in files.items()})
    if extra:
        d.update(extra)
    return d


def case_load(case):
    P = _tuplify(case['program'])
    inp = bytes.fromhex(case['input'])
    files = {int(k): bytes.fromhex(v) for k, v in case.get('files', {}).items()}
    return P, inp, files


def _tuplify(x, top=True):
    """JSON round trip turns tuples into lists: rebuild the AST shape (lists stay lists only where the AST has lists)."""
    if isinstance(x, dict):
        return {k: (_tuplify_proc_field(k, v)) for k, v in x.items()}
    return x


def _tuplify_proc_field(k, v):
    if k == 'globals':
        return [tuple(_expr(e) if isinstance(e, list) else e for e in g) for g in v]
    if k == 'procs':
        return [dict(kind=p['kind'], name=p['name'], formals=[tuple(f) for f in p['formals']],
                     locals=[tuple(_expr(e) if isinstance(e, list) else e for e in l) for l in p['locals']],
                     body=_stmt(p['body'])) for p in v]
    return v


def _expr(e):
    k = e[0]
    if k in ('call', 'syscall'):
        return (k, e[1], [_expr(a) for a in e[2]])
    return tuple(_expr(x) if isinstance(x, list) else x for x in e)


def _stmt(s):
    k = s[0]
    if k == 'seq':
        return ('seq', [_stmt(x) for x in s[1]])
    if k == 'if':
        return ('if', _expr(s[1]), _stmt(s[2]), _stmt(s[3]))
    if k == 'while':
        return ('while', _expr(s[1]), _stmt(s[2]))
    if k == 'ret':
        return ('ret', _expr(s[1]))
    if k == 'ass':
        return ('ass', _expr(s[1]), _expr(s[2]))
    if k in ('pcall', 'syscall'):
        return (k, s[1], [_expr(a) for a in s[2]])
    return tuple(s)
