"""Common driver: tiers, seeds, evidence, replay files, known-findings protocol."""
import collections
import glob
import hashlib
import json
import os
import re
import shutil
import subprocess
import sys
import tempfile
import time
import traceback

from . import build

VERIF = build.VERIF
EVIDENCE = os.path.join(VERIF, 'evidence')
REPLAYS = os.path.join(VERIF, 'replays')
if build.REPO != '/repo':
    # sensitivity experiments against a scratch copy of the repository must not overwrite the real evidence
    EVIDENCE = os.path.join(build.BUILD, 'evidence')
    REPLAYS = os.path.join(build.BUILD, 'replays')
CORPUS = os.path.join(VERIF, 'corpus')
KNOWN = os.path.join(VERIF, 'known_findings.txt')
NCPU = min(16, os.cpu_count() or 1)
# A time budget is only a budget: a failure that is a timeout is confirmed with this factor applied before it is believed.
TIMEOUT_SCALE = 1

SAN_ENV = {
    'ASAN_OPTIONS': 'abort_on_error=1:detect_leaks=0:allocator_may_return_null=1:handle_abort=0',
    'UBSAN_OPTIONS': 'abort_on_error=1:print_stacktrace=1',
}


def san_env(extra=None):
    e = dict(os.environ)
    e.update(SAN_ENV)
    if extra:
        e.update(extra)
    return e


def scratch_root():
    """Scratch space for individual cases: RAM-backed when available, never needed after the run."""
    for base in ('/dev/shm', os.path.join(VERIF, 'build')):
        if os.path.isdir(base) and os.access(base, os.W_OK):
            d = os.path.join(base, 'verif-scratch')
            os.makedirs(d, exist_ok=True)
            return d
    d = os.path.join(VERIF, 'build', 'scratch')
    os.makedirs(d, exist_ok=True)
    return d


class Scratch:
    def __init__(self, tag='case'):
        self.dir = tempfile.mkdtemp(prefix=tag + '-', dir=scratch_root())

    def __enter__(self):
        return self.dir

    def __exit__(self, *a):
        shutil.rmtree(self.dir, ignore_errors=True)


# --------------------------------------------------------------------------
# Known findings
# --------------------------------------------------------------------------

class Finding:
    def __init__(self, state, prop, text, fields):
        self.state = state      # 'known' | 'fixed'
        self.prop = prop
        self.text = text        # human description (for fixed: "<commit> <what>")
        self.id = fields.get('id', '')
        self.witness = fields.get('witness')
        self.match = fields.get('match')


def load_findings(prop=None):
    out = []
    if not os.path.exists(KNOWN):
        return out
    for line in open(KNOWN):
        line = line.rstrip('\n')
        m = re.match(r'^(known|fixed): property=(C\d+) (.*?)(?:\s+# (.*))?$', line)
        if not m:
            continue
        fields = dict(kv.split('=', 1) for kv in (m.group(4) or '').split() if '=' in kv)
        f = Finding(m.group(1), m.group(2), m.group(3).strip(), fields)
        if prop is None or f.prop == prop:
            out.append(f)
    return out


# --------------------------------------------------------------------------
# Run context
# --------------------------------------------------------------------------

class Ctx:
    def __init__(self, prop, tier, seed):
        self.prop = prop
        self.tier = tier
        self.seed = seed
        self.t0 = time.time()
        self.evaluations = 0
        self.discarded = collections.Counter()
        self.excluded_known = collections.Counter()
        self.classes = collections.Counter()
        self.nontrivial_hashes = set()
        self.nontrivial_extra = 0     # distinct non-trivial cases counted inside a C++ harness
        self.samples = []
        self.rule = ''
        self.assumptions = []
        self.violations = []          # list of (replay_path, summary)
        self.known_seen = []
        self.flaky = []
        self.notes = {}
        self.exhaustive = False
        self.errors = []
        self.findings = load_findings(prop)
        self.min_nontrivial = 2
        os.makedirs(REPLAYS, exist_ok=True)

    # -- counting ---------------------------------------------------------
    def count_case(self, nontrivial_key=None, classes=()):
        self.evaluations += 1
        if nontrivial_key is not None:
            self.nontrivial_hashes.add(hashlib.sha1(repr(nontrivial_key).encode()).digest()[:10])
        for c in classes:
            self.classes[c] += 1

    def merge_worker(self, w):
        """Merge a worker result dict (see worker protocol in props)."""
        self.evaluations += w.get('evaluations', 0)
        for k, v in w.get('discarded', {}).items():
            self.discarded[k] += v
        for k, v in w.get('excluded_known', {}).items():
            self.excluded_known[k] += v
        for k, v in w.get('classes', {}).items():
            self.classes[k] += v
        for h in w.get('nontrivial_hashes', []):
            self.nontrivial_hashes.add(h)
        self.nontrivial_extra += w.get('nontrivial_extra', 0)
        for s in w.get('samples', []):
            if len(self.samples) < 10:
                self.samples.append(s)
        for n in w.get('notes', []):
            self.notes.setdefault('worker_notes', []).append(n)

    def sample(self, s, limit=10):
        if len(self.samples) < limit:
            self.samples.append(s)

    # -- outcomes ---------------------------------------------------------
    def write_replay(self, case):
        case = dict(case)
        case['property'] = self.prop
        blob = json.dumps(case, sort_keys=True, indent=1)
        name = '%s-%s.json' % (self.prop, hashlib.sha1(blob.encode()).hexdigest()[:12])
        path = os.path.join(REPLAYS, name)
        with open(path, 'w') as f:
            f.write(blob + '\n')
        return path

    def violation(self, case, summary):
        path = self.write_replay(case)
        self.violations.append((path, summary))
        print('VIOLATION property=%s replay=%s' % (self.prop, path))
        print('  ' + summary.replace('\n', '\n  ')[:2000])
        sys.stdout.flush()
        return path

    def known_finding(self, finding, detail=''):
        self.known_seen.append(finding.id)
        print('KNOWN-FINDING: property=%s %s%s' % (self.prop, finding.text, (' [' + detail + ']') if detail else ''))
        sys.stdout.flush()

    def error(self, msg):
        self.errors.append(msg)
        print('ERROR %s: %s' % (self.prop, msg))
        sys.stdout.flush()

    # -- finish -----------------------------------------------------------
    def finish(self):
        wall = time.time() - self.t0
        distinct = len(self.nontrivial_hashes) + self.nontrivial_extra
        if distinct < self.min_nontrivial and not self.violations:
            self.error('only %d distinct non-trivial cases (minimum %d): the run is not evidence' % (distinct, self.min_nontrivial))
        cov = {
            'evaluations': int(self.evaluations),
            'distinct_nontrivial': int(distinct),
            'rule': self.rule,
            'samples': self.samples if self.samples else ['<none recorded>'],
            'discarded': dict(self.discarded),
            'excluded_known': dict(self.excluded_known),
            'classes': dict(sorted(self.classes.items(), key=lambda kv: (-kv[1], kv[0]))[:80]),
            'exhaustive': bool(self.exhaustive),
            'known_findings_seen': self.known_seen,
            'flaky': self.flaky,
            'violation_replays': [p for p, _ in self.violations],
            'errors': self.errors,
        }
        cov.update(self.notes)
        ev = {
            'property_id': self.prop,
            'tier': self.tier,
            'seed': int(self.seed),
            'level': 'exploration',
            'coverage': cov,
            'assumptions': self.assumptions,
            'wall_s': round(wall, 2),
            'violations': len(self.violations),
        }
        os.makedirs(EVIDENCE, exist_ok=True)
        tmp = os.path.join(EVIDENCE, '.%s.json.tmp' % self.prop)
        with open(tmp, 'w') as f:
            json.dump(ev, f, indent=1, sort_keys=True)
            f.write('\n')
        os.replace(tmp, os.path.join(EVIDENCE, '%s.json' % self.prop))
        status = 'VIOLATED' if self.violations else ('ERROR' if self.errors else 'held')
        print('%s %s tier=%s seed=%d evaluations=%d distinct_nontrivial=%d wall=%.1fs'
              % (self.prop, status, self.tier, self.seed, self.evaluations, distinct, wall))
        if self.violations:
            return 1
        if self.errors:
            return 2
        return 0


# --------------------------------------------------------------------------
# Helpers for subprocess fan-out
# --------------------------------------------------------------------------

def run_parallel(cmds, env=None, timeout=None, cwd=None):
    """Run commands (lists) in parallel, at most NCPU at a time.  Returns list of CompletedProcess-like tuples
    (returncode, stdout bytes, stderr bytes) in order; returncode None on timeout."""
    from concurrent.futures import ThreadPoolExecutor

    def one(cmd):
        try:
            r = subprocess.run(cmd, stdout=subprocess.PIPE, stderr=subprocess.PIPE, env=env, timeout=timeout, cwd=cwd)
            return (r.returncode, r.stdout, r.stderr)
        except subprocess.TimeoutExpired as e:
            return (None, e.stdout or b'', e.stderr or b'')
    with ThreadPoolExecutor(max_workers=NCPU) as ex:
        return list(ex.map(one, cmds))


def regress_files(prop):
    if os.environ.get('VERIF_NO_REGRESS'):
        return []      # sensitivity experiments only: is the generator alone able to find what a witness pins?
    return sorted(glob.glob(os.path.join(CORPUS, 'regress', prop, '*.json')))


def load_json(path):
    with open(path) as f:
        return json.load(f)


def hang_is_failure(result_for_hang):
    """Decorator for an oracle function: a tool that does not finish within its budget is a failure of the case being checked
    (reported, confirmed by re-running and replayable like any other), not an error of the run."""
    def deco(fn):
        def wrapped(*a, **k):
            try:
                return fn(*a, **k)
            except subprocess.TimeoutExpired as e:
                cmd = e.cmd if isinstance(e.cmd, str) else ' '.join(os.path.basename(str(c)) for c in list(e.cmd)[:4])
                return result_for_hang('hang: %s did not finish within %.0f s' % (cmd, e.timeout))
        wrapped.__name__ = fn.__name__
        wrapped.__doc__ = fn.__doc__
        return wrapped
    return deco
