"""G-X: generator of well-defined X programs, written against a random.Random-like choice source.

The generator builds a typed AST top-down with an explicit environment (what is declared, what is
definitely assigned, which arrays are how long, which callees are pure) so that almost every draw is
in the domain of C01 *by construction*; xref discards the residue and the discard histogram is part of
the evidence.  Draws are ordered so that smaller is simpler (counts as randint(0, n), optional features
taken when random() >= p, the plainest alternative first), which is what lets Hypothesis shrink.
"""
import itertools
import re
from . import xlang
from .xlang import wrap32

BOUNDARY = [0, 1, 2, 3, 7, 15, 16, 17, 255, 256, 65535, 65536, 65537, 2147483647,
            -1, -2, -16, -17, -255, -256, -65535, -65536, -65537, -2147483647, -2147483648]
NAMES = ['x', 'y', 'z', 'w', 'k', 'm', 'a', 'b', 'c', 'd']
STRINGS = ['a', 'abc', 'hello', '0123456', 'xy', 'The quick', '', 'a\nb', "q'\"\\t\t", 'abcd', 'abcdefgh', 'abcdefghijk', 'abcdefghijkl',
           'the quick brown fox jumps over the lazy dog 0123456789 THE END', '~!@#$%^&*()_+{}[]<>?/']
# bytes >= 0x80 (sources are written as latin-1; 0xFF is the lexer's end-of-file sentinel and is never generated) and lengths around the
# signed-byte boundary and at the one-byte maximum of the packed length
_ALPHA = 'abcdefghijklmnopqrstuvwxyzABCDEFGHIJKLMNOPQRSTUVWXYZ0123456789'
STRINGS += ['\xe9ab', 'ab\x80', '\xfe\xfd\xfc\xfb\x7f', 'na\xefve caf\xe9'] + [(_ALPHA * 5)[:n] for n in (127, 128, 129, 131, 200, 254, 255)]
CHARS = 'aZ09 !#&()*+-/<=>?@[]^_{}~'
STREAMS_OUT = [0, 0, 0, 255, 7, 256, 512, 0x700, 0x7FF, 2048, 0x10200, -1, -256]
STREAMS_IN = [0, 0, 0, 255, 3, 0x100, 0x300, 0x6AB, 0x800 + 0x300, -1]

FULL, PURE, SAFE = 2, 1, 0


class Cfg:
    def __init__(self, tier='quick', mode='normal'):
        self.tier = tier
        self.mode = mode              # normal | deep | full (C08's extra modes)
        thorough = tier == 'thorough'
        self.max_procs = 8 if thorough else 5
        self.expr_depth = 7 if thorough else 5
        self.stmt_depth = 4 if thorough else 3
        self.max_rec_depth = 60 if thorough else 12


def lit(v):
    """Literal expression for a 32-bit value."""
    if v < 0:
        if v == -2**31:
            return ('hex', 2**31)          # -(2147483648) would overflow while negating
        return ('neg', ('num', -v))
    return ('num', v)


class Proc:
    def __init__(self, kind, name, formals):
        self.kind = kind
        self.name = name
        self.formals = formals        # [(kind, name)]
        self.array_info = {}          # array formal name -> dict(writable=bool, lenformal=name or None)
        self.locals = []
        self.body = None
        self.writes = False           # assigns global variables / array cells
        self.io = False
        self.reads = False            # reads global variables / array cells
        self.rec = False              # recursion template (first formal is the decreasing counter)

    @property
    def impure(self):
        return self.writes or self.io

    def to_ast(self):
        return dict(kind=self.kind, name=self.name, formals=list(self.formals), locals=list(self.locals), body=self.body)


class Env:
    def __init__(self):
        self.ints = []          # names readable as int now (definitely assigned)
        self.safe = []          # subset of ints that are locals / val formals / local vals (no global state)
        self.assignable = []    # variables that may be assigned here
        self.local_assign = []  # subset: locals only
        self.arrays = {}        # name -> dict(len=int, writable=bool, lenexpr=expr or None, glob=bool)
        self.funcs = []
        self.procs = []
        self.counters = []      # free local names usable as loop counters
        self.infunc = False
        self.pure_only = False  # generating a pure function: no global writes, no I/O, only pure callees
        self.me = None          # Proc being generated
        self.noassign = set()
        self.loopvars = {}      # loop counter -> exclusive upper bound (int) or name of the array it indexes

    def fork(self):
        e = Env()
        e.__dict__.update(self.__dict__)
        e.ints = list(self.ints)
        e.safe = list(self.safe)
        e.counters = list(self.counters)
        e.noassign = set(self.noassign)
        e.loopvars = dict(self.loopvars)
        return e

    def join(self, a, b):
        """Definite assignment after an if: intersection of both arms."""
        self.ints = [v for v in a.ints if v in b.ints]
        self.safe = [v for v in a.safe if v in b.safe]


class Gen:
    def __init__(self, r, cfg):
        self.r = r
        self.cfg = cfg
        self.pool = []
        self.sys = {}            # 'exit'/'put'/'get' -> callee (int or val name)
        self.gvals = {}          # name -> value
        self.gvars = []
        self.garrays = {}        # name -> length
        self.files = {}

    # -- small helpers ------------------------------------------------------
    def chance(self, p):
        """True with probability p; drawn so that 'False' is the simpler choice."""
        return self.r.random() >= 1.0 - p

    def small(self):
        r = self.r
        x = r.random()
        if x < 0.55:
            return r.randint(-3, 12)
        if x < 0.80:
            return r.choice(self.pool)
        if x < 0.93:
            return r.randint(-300, 300)
        return r.choice(BOUNDARY)

    def literal(self, v=None):
        r = self.r
        if v is None:
            v = self.small()
        x = r.random()
        if x >= 0.85 and 32 <= v < 127 and chr(v) in CHARS:
            return ('chr', chr(v))
        if x >= 0.75 and 0 <= v:
            return ('hex', v)
        if x >= 0.70 and v < 0:
            return ('hex', v % 2**32)          # e.g. #FFFFFFFF for -1
        if x >= 0.65 and v in (0, 1):
            return ('bool', bool(v))
        return lit(v)

    def callee(self, which):
        return self.sys[which]

    # -- expressions ----------------------------------------------------------
    def leaf(self, env, mode):
        r = self.r
        c = ['lit']
        names = env.safe if mode == SAFE else env.ints
        if names:
            c = ['var', 'var', 'var'] + c
        k = r.choice(c)
        if k == 'var':
            return ('var', r.choice(names))
        return self.literal()

    def bool_expr(self, env, d, mode):
        r = self.r
        x = r.random()
        if d <= 0 or x < 0.12:
            return ('bool', r.random() >= 0.5)
        if x < 0.62:
            op = r.choice(['=', '<', '~=', '<=', '>', '>='])
            l, rr = self.operands(env, d - 1, mode)
            return ('bin', op, l, rr)
        if x < 0.82:
            op = r.choice(['and', 'or'])
            n = r.randint(2, 4)
            es = [self.bool_expr(env, d - 1, mode) for _ in range(n)]
            e = es[-1]
            for q in reversed(es[:-1]):
                e = ('bin', op, q, e)
            return e
        if x < 0.94:
            return ('not', self.bool_expr(env, d - 1, mode))
        return ('paren', self.bool_expr(env, d - 1, mode))

    def operands(self, env, d, mode):
        """Two int operands whose evaluation order X leaves open: at most one of them may have effects."""
        r = self.r
        if mode == FULL and self.chance(0.35):
            if r.random() < 0.5:
                return self.int_expr(env, d, FULL), self.int_expr(env, min(d, 2), SAFE)
            return self.int_expr(env, min(d, 2), SAFE), self.int_expr(env, d, FULL)
        m = min(mode, PURE)
        return self.int_expr(env, d, m), self.int_expr(env, d, m)

    def int_expr(self, env, d, mode):
        r = self.r
        x = r.random()
        if d <= 0 or x < 0.22:
            return self.leaf(env, mode)
        if x < 0.50:
            if r.random() < 0.25:
                # associative chain a + b + c (+ d + e): right-nested by the grammar
                n = r.randint(3, 5)
                m = min(mode, PURE)
                es = [self.int_expr(env, d - 1, m) for _ in range(n)]
                e = es[-1]
                for q in reversed(es[:-1]):
                    e = ('bin', '+', q, e)
                return e
            op = r.choice(['+', '-', '+'])
            l, rr = self.operands(env, d - 1, mode)
            return ('bin', op, l, rr)
        if x < 0.57:
            return ('neg', self.int_expr(env, d - 1, mode))
        if x < 0.67 and mode != SAFE and env.arrays:
            a = r.choice(sorted(env.arrays))
            return ('idx', a, self.index(env, a, d - 1, mode))
        if x < 0.84 and mode != SAFE:
            fs = [f for f in env.funcs if mode == FULL and not env.pure_only or not f.impure]
            if fs:
                f = r.choice(fs)
                return self.call_expr(env, f, d - 1, mode)
        if x < 0.89 and mode == FULL and not env.pure_only and 'get' in self.sys:
            env.me.io = True
            return ('syscall', self.callee('get'), [self.stream_expr(STREAMS_IN)])
        if x < 0.95:
            return self.bool_expr(env, d - 1, mode)
        if x < 0.97:
            return ('paren', self.int_expr(env, d - 1, mode))
        return self.leaf(env, mode)

    def stream_expr(self, choices):
        s = self.r.choice(choices)
        if s >= 256:
            f = (s >> 8) & 7
            if choices is STREAMS_IN:
                if f in self.used_out_files:
                    s = 0
                else:
                    self.used_in_files.add(f)
            else:
                if f in self.used_in_files:
                    s = 0
                else:
                    self.used_out_files.add(f)
        e = self.literal(s) if 0 <= s < 256 else lit(s)
        if getattr(self, 'idf', False) and self.chance(0.35):
            self.idf_used = True
            return ('call', 'idf', [e])
        return e

    def index(self, env, a, d, mode):
        """A subscript in range by construction."""
        r = self.r
        info = env.arrays[a]
        n = info['len']
        x = r.random()
        if n > 16 and x < 0.3:
            return lit(0)                # the word of a long string that holds its length byte
        if n >= 2 and x >= 0.75 and d > 0:
            return self.bool_expr(env, min(d, 2), min(mode, PURE))       # 0 or 1
        cands = [c for c, b in sorted(env.loopvars.items()) if b == a or (isinstance(b, int) and b <= n)]
        if cands and x >= 0.45:
            return ('var', r.choice(cands))
        if n >= 3 and x >= 0.35:
            return ('bin', '+', lit(r.randrange(n - 1)), self.bool_expr(env, 1, min(mode, PURE)))
        return lit(r.randrange(n))

    def array_actual(self, env, writable, need_len):
        """An actual for an array formal: (expr, length)."""
        r = self.r
        cands = [(n, i) for n, i in sorted(env.arrays.items()) if i['len'] >= 1 and (i['writable'] or not writable)]
        if not writable and (not cands or self.chance(0.25)):
            s = r.choice(STRINGS)
            return ('str', s), (len(s) + 4) // 4
        if not cands:
            return None, 0
        n, i = r.choice(cands)
        return ('var', n), i['len']

    def actuals(self, env, p, d, mode):
        """Actual parameter list for a call of p; returns None if an array actual cannot be provided."""
        r = self.r
        args = []
        nval = sum(1 for k, _ in p.formals if k == 'val')
        full_at = r.randrange(nval) if (nval and mode == FULL and self.chance(0.5)) else -1
        vi = 0
        lens = {}
        for k, n in p.formals:
            if k == 'array':
                info = p.array_info[n]
                e, ln = self.array_actual(env, info['writable'], True)
                if e is None:
                    return None
                lens[n] = ln
                args.append(e)
            else:
                owner = [a for a, inf in p.array_info.items() if inf.get('lenformal') == n]
                if owner:
                    ln = lens.get(owner[0], 1)
                    args.append(lit(r.randint(1, ln)) if ln > 1 and self.chance(0.3) else lit(ln))
                elif p.rec and vi == 0:
                    args.append(lit(r.randint(0, self.cfg.max_rec_depth if self.chance(0.15) else 4)))
                else:
                    if full_at >= 0:
                        m = FULL if vi == full_at else SAFE
                    else:
                        m = min(mode, PURE)
                    if vi >= 1 and self.chance(0.2):
                        # a later actual that needs several temporaries while earlier parameter slots are already written
                        args.append(self.temp_hungry(env, r.randint(2, 4), min(m, PURE)))
                    else:
                        args.append(self.int_expr(env, d, m))
                vi += 1
        return args

    def temp_hungry(self, env, n, mode):
        """x op (y op (z op ...)) with non-leaf right operands everywhere: each level needs a stack temporary."""
        r = self.r
        e = ('bin', r.choice('+-'), self.leaf(env, mode), self.leaf(env, mode))
        for _ in range(n):
            left = self.leaf(env, mode) if r.random() < 0.6 else ('bin', r.choice('+-'), self.leaf(env, mode), ('bin', '+', self.leaf(env, mode), self.leaf(env, mode)))
            op = r.choice(['+', '-', '+', '=', '<'])
            if op in '=<':
                e = ('bin', '+', ('bin', op, left, e), self.leaf(env, mode)) if r.random() < 0.5 else ('bin', op, left, e)
            else:
                e = ('bin', op, left, e)
        return e

    def call_expr(self, env, f, d, mode):
        args = self.actuals(env, f, d, mode)
        if args is None:
            return self.leaf(env, mode)
        self.note_call(env, f)
        return ('call', f.name, args)

    def note_call(self, env, p):
        env.me.writes |= p.writes
        env.me.io |= p.io
        env.me.reads |= p.reads

    # -- statements -----------------------------------------------------------
    def stmt(self, env, d):
        r = self.r
        x = r.random()
        if d <= 0 or x < 0.30:
            return self.simple(env)
        if x < 0.33:
            # a condition that folds at compile time: a loop that never runs, an if with a dead arm
            zero_vals = [v for v, val in sorted(self.gvals.items()) if val == 0 and v in env.ints]
            one_vals = [v for v, val in sorted(self.gvals.items()) if val != 0 and v in env.ints]
            falses = [('bool', False), lit(0), ('bin', '<', lit(1), lit(0)), ('not', ('bool', True)), ('bin', '-', lit(4), lit(4)),
                      ('bin', '=', lit(2), lit(3)), ('bin', 'and', ('bool', True), ('bool', False))] + [('var', v) for v in zero_vals]
            trues = [('bool', True), lit(1), ('bin', '<', lit(0), lit(1)), ('not', ('bool', False)), ('bin', '=', lit(3), lit(3))] + [('var', v) for v in one_vals]
            e1 = env.fork()
            body = self.stmt(e1, d - 1)
            if body == ('skip',):
                body = ('seq', [('skip',), ('skip',)])
            if r.random() < 0.5:
                return ('while', r.choice(falses), body)          # nothing assigned inside counts as assigned afterwards
            e2 = env.fork()
            other = self.stmt(e2, d - 1)
            if r.random() < 0.5:
                st = ('if', r.choice(trues), other, body)
            else:
                st = ('if', r.choice(falses), body, other)
            env.ints = list(e2.ints)
            env.safe = list(e2.safe)
            return st
        if x < 0.52:
            c = self.bool_expr(env, r.randint(1, 3), FULL if not env.pure_only else PURE)
            e1 = env.fork()
            e2 = env.fork()
            t = self.stmt(e1, d - 1) if r.random() < 0.85 else ('skip',)
            f = self.stmt(e2, d - 1) if r.random() < 0.70 else ('skip',)
            if t == ('skip',) and f == ('skip',):
                # xcmp emits no code for such a statement (documented optimisation): keep the condition free of calls
                c = self.bool_expr(env, 2, SAFE)
            env.join(e1, e2)
            return ('if', c, t, f)
        if x < 0.57 and not env.pure_only and 'get' in self.sys:
            # classify an input byte: the branch taken depends on more than the low bits of what was read
            env.me.io = True
            rd = ('syscall', self.callee('get'), [self.stream_expr(STREAMS_IN)])
            k = lit(r.choice([0, 1, 100, 127, 128, 129, 200, 254, 255, 256]))
            op = r.choice(['<', '=', '>=', '>', '~=', '<='])
            c = ('bin', op, rd, k) if r.random() < 0.7 else ('bin', op, ('bin', r.choice('+-'), rd, lit(r.randint(0, 3))), k)
            e1 = env.fork()
            e2 = env.fork()
            t = self.stmt(e1, d - 1)
            f = self.stmt(e2, d - 1)
            env.join(e1, e2)
            if t == ('skip',) and f == ('skip',):
                # xcmp emits nothing at all for an if whose arms are both skip (documented optimisation), so whether the
                # condition - here a read - is evaluated is outside the language definition: keep one arm a real statement
                t = ('seq', [('skip',), ('skip',)])
            return ('if', c, t, f)
        if x < 0.60 and not env.pure_only and 'get' in self.sys and 'put' in self.sys and env.counters:
            # the classic filter loop: read until end of input (255), transform and write each byte
            env.me.io = True
            c = env.counters[0]
            e1 = env.fork()
            e1.counters = env.counters[1:]
            e1.noassign = env.noassign | {c}
            if c not in e1.ints:
                e1.ints.append(c)
                e1.safe.append(c)
            body = self.stmt(e1, d - 1) if self.chance(0.5) else ('skip',)
            rd = ('syscall', self.callee('get'), [lit(0)])
            out = ('syscall', self.callee('put'), [self.int_expr(e1, 2, SAFE) if self.chance(0.5) else ('var', c), self.stream_expr(STREAMS_OUT)])
            if c not in env.ints:
                env.ints.append(c)
                env.safe.append(c)
            cond = r.choice([('bin', '~=', ('var', c), lit(255)), ('bin', '<', ('var', c), lit(255)), ('not', ('bin', '=', ('var', c), lit(255)))])
            return ('seq', [('ass', ('var', c), rd), ('while', cond, ('seq', [out, body, ('ass', ('var', c), rd)]))])
        if x < 0.66 and env.counters:
            return self.counter_loop(env, d)
        if x < 0.72 and env.counters:
            return self.down_loop(env, d)
        n = r.randint(2, 4)
        return ('seq', [self.stmt(env, d - 1) for _ in range(n)])

    def counter_loop(self, env, d):
        r = self.r
        i = env.counters[0]
        n = r.randint(0, 4)
        bound = lit(n)
        tag = n
        # loop over an array formal up to the length its companion formal carries
        fa = [a for a, inf in sorted(env.me.array_info.items()) if inf.get('lenformal')]
        if fa and self.chance(0.5):
            a = r.choice(fa)
            bound = ('var', env.me.array_info[a]['lenformal'])
            tag = a
        e1 = env.fork()
        e1.counters = env.counters[1:]
        e1.noassign = env.noassign | {i}
        if i not in e1.ints:
            e1.ints.append(i)
            e1.safe.append(i)
        e1.loopvars[i] = tag            # i < bound inside the body: a valid subscript
        body = self.stmt(e1, d - 1)
        if i not in env.ints:
            env.ints.append(i)
            env.safe.append(i)
        cond = ('bin', '<', ('var', i), bound) if r.random() < 0.7 else ('bin', '~=', ('var', i), bound)
        return ('seq', [('ass', ('var', i), lit(0)),
                        ('while', cond, ('seq', [body, ('ass', ('var', i), ('bin', '+', ('var', i), lit(1)))]))])

    def down_loop(self, env, d):
        r = self.r
        i = env.counters[0]
        n = r.randint(0, 3)
        e1 = env.fork()
        e1.counters = env.counters[1:]
        e1.noassign = env.noassign | {i}
        if i not in e1.ints:
            e1.ints.append(i)
            e1.safe.append(i)
        body = self.stmt(e1, d - 1)
        if i not in env.ints:
            env.ints.append(i)
            env.safe.append(i)
        cond = r.choice([('bin', '>', ('var', i), lit(0)), ('bin', '>=', ('var', i), lit(1)), ('bin', '<', lit(0), ('var', i)),
                         ('not', ('bin', '<=', ('var', i), lit(0)))])
        return ('seq', [('ass', ('var', i), lit(n)),
                        ('while', cond, ('seq', [body, ('ass', ('var', i), ('bin', '-', ('var', i), lit(1)))]))])

    def simple(self, env):
        r = self.r
        x = r.random()
        mode = PURE if env.pure_only else FULL
        targets = [v for v in (env.local_assign if env.pure_only else env.assignable) if v not in env.noassign]
        if x < 0.42 and targets:
            v = r.choice(targets)
            e = self.int_expr(env, r.randint(0, self.cfg.expr_depth), mode)
            if v not in env.ints:
                env.ints.append(v)
            if v in env.local_assign and v not in env.safe:
                env.safe.append(v)
            if v not in env.local_assign:
                env.me.writes = True
            return ('ass', ('var', v), e)
        if x < 0.54 and not env.pure_only:
            ws = [a for a, i in sorted(env.arrays.items()) if i['writable'] and i['len'] >= 1]
            if ws:
                a = r.choice(ws)
                env.me.writes = True
                if getattr(self, 'setw', False) and self.chance(0.4):
                    # the store goes through a callee whose subscript is an actual: a wrong actual becomes a wrong address
                    self.setw_used = True
                    idx = self.index(env, a, 2, SAFE)
                    if self.idf and self.chance(0.5):
                        self.idf_used = True
                        idx = ('call', 'idf', [idx])
                    val = self.int_expr(env, r.randint(0, 3), FULL)
                    if 'get' in self.sys and self.chance(0.4):
                        # a system call whose own actual may contain a call, as an actual before another call-containing actual
                        env.me.io = True
                        val = ('syscall', self.callee('get'), [self.stream_expr(STREAMS_IN)])
                        if self.chance(0.7):
                            self.idf_used = True
                            val = ('syscall', self.callee('get'), [('call', 'idf', [lit(0)])])
                            if idx[0] != 'call':
                                idx = ('call', 'idf', [idx])
                    return ('pcall', 'setw', [('var', a), val, idx])
                if self.chance(0.3):
                    return ('ass', ('idx', a, self.index(env, a, 2, SAFE)), self.int_expr(env, r.randint(0, 3), FULL))
                return ('ass', ('idx', a, self.index(env, a, 2, PURE)), self.int_expr(env, r.randint(0, 3), PURE))
        if x < 0.72:
            ps = [p for p in env.procs if not (env.pure_only and p.impure)]
            if ps:
                p = r.choice(ps)
                args = self.actuals(env, p, r.randint(0, 3), mode)
                if args is not None:
                    self.note_call(env, p)
                    return ('pcall', p.name, args)
        if x < 0.90 and not env.pure_only and 'put' in self.sys:
            env.me.io = True
            v = self.int_expr(env, r.randint(0, 3), FULL if self.chance(0.3) else PURE)
            return ('syscall', self.callee('put'), [v, self.stream_expr(STREAMS_OUT)])
        if x < 0.93 and not env.pure_only and 'get' in self.sys:
            env.me.io = True
            return ('syscall', self.callee('get'), [self.stream_expr(STREAMS_IN)])
        if x < 0.95 and not env.infunc and not env.pure_only:
            env.me.io = True
            if r.random() < 0.4:
                return ('stop',)
            return ('syscall', self.callee('exit'), [self.int_expr(env, 2, PURE)])
        if x < 0.97 and env.infunc:
            return ('ret', self.int_expr(env, 2, mode))
        return ('skip',)

    # -- program --------------------------------------------------------------
    def const_expr(self, vals):
        r = self.r
        x = r.random()
        if x < 0.45:
            return lit(r.choice(BOUNDARY + self.pool)), None
        if x < 0.65 and vals:
            v = r.choice(sorted(vals))
            k = r.randint(-3, 3)
            return ('bin', '+' if k >= 0 else '-', ('var', v), lit(abs(k))), None
        if x < 0.85:
            a, b = r.randint(-5, 70000), r.randint(-5, 5)
            return ('bin', r.choice('+-'), lit(a), lit(b)), None
        return lit(r.randint(0, 300)), None

    def fold(self, e, vals):
        """Compile-time value of a constant expression (wrap-around arithmetic), None if not constant."""
        k = e[0]
        if k in ('num', 'hex'):
            return wrap32(e[1])
        if k == 'bool':
            return int(e[1])
        if k == 'chr':
            return ord(e[1])
        if k == 'var':
            return vals.get(e[1])
        if k == 'paren':
            return self.fold(e[1], vals)
        if k == 'neg':
            v = self.fold(e[1], vals)
            return None if v is None else -v
        if k == 'bin' and e[1] in '+-':
            a, b = self.fold(e[2], vals), self.fold(e[3], vals)
            if a is None or b is None:
                return None
            return a + b if e[1] == '+' else a - b
        return None

    def program(self):
        r = self.r
        cfg = self.cfg
        self.pool = [r.randint(-50, 50) for _ in range(3)]
        self.used_in_files = set()
        self.used_out_files = set()
        self.idf = self.chance(0.3)      # stream numbers may be passed through an identity function (a call inside a system call's actuals)
        self.idf_used = False
        self.setw = self.chance(0.3)
        self.setw_used = False
        gl = []
        taken = set()
        # system-call names
        for nm, num in (('exit', 0), ('put', 1), ('get', 2)):
            if self.chance(0.5):
                gl.append(('val', nm, ('num', num)))
                self.sys[nm] = nm
                taken.add(nm)
            else:
                self.sys[nm] = num
        # constant vals
        for i in range(r.randint(0, 4)):
            n = 'c%d' % i
            for _ in range(4):
                e, _x = self.const_expr(self.gvals)
                v = self.fold(e, self.gvals)
                if v is not None and -2**31 <= v <= 2**31 - 1:
                    break
            else:
                e, v = lit(i), i
            gl.append(('val', n, e))
            self.gvals[n] = v
        # global variables: some share names with the local-name pool so that locals shadow them
        ngv = r.randint(0, 4)
        for i in range(ngv):
            n = ('g%d' % i) if not self.chance(0.25) else NAMES[i]
            if n in taken:
                n = 'g%d' % i
            taken.add(n)
            gl.append(('var', n))
            self.gvars.append(n)
        # global arrays
        big = cfg.mode == 'full'
        for i in range(r.randint(1 if big else 0, 3)):
            n = 'A%d' % i
            ln = r.randint(1, 8)
            e = lit(ln)
            small_vals = [v for v, val in self.gvals.items() if 1 <= val <= 8]
            if small_vals and self.chance(0.3):
                v = r.choice(sorted(small_vals))
                e, ln = ('var', v), self.gvals[v]
            if big and i == 0:
                ln = r.choice([1000, 60000, 150000, 190000 - 64])
                e = lit(ln)
            gl.append(('array', n, e))
            self.garrays[n] = ln
        # procedures
        plist = []
        nproc = r.randint(0, cfg.max_procs)
        for i in range(nproc):
            plist.append(self.gen_proc(i, plist))
        if self.chance(0.4):
            plist.append(self.rec_template(plist))
        if self.chance(0.2):
            plist.extend(self.mutual_template())
        if cfg.mode == 'deep':
            plist.append(self.deep_template())
        self.strprobe = self.chance(0.2)
        main = self.gen_main(plist)
        if self.strprobe:
            plist.append(self.strw_template())
        if self.setw_used:
            sw = Proc('proc', 'setw', [('array', 'a'), ('val', 'v'), ('val', 'i')])
            sw.array_info['a'] = dict(writable=True, lenformal=None, len=1)
            sw.body = ('ass', ('idx', 'a', ('var', 'i')), ('var', 'v'))
            plist.append(sw)
        if self.idf_used:
            idf = Proc('func', 'idf', [('val', 'v')])
            idf.body = ('ret', ('var', 'v'))
            plist.append(idf)
        procs = [p.to_ast() for p in plist]
        r.shuffle(procs)
        procs.insert(r.randint(0, len(procs)), main.to_ast())
        P = dict(globals=gl, procs=procs)
        # input: straddles "fewer bytes than the program reads" and "more"
        n = r.randint(0, 8)
        inp = bytes(r.choice([0, 1, 48, 97, 127, 128, 129, 200, 254, 255, r.randrange(256)]) for _ in range(n))
        files = {}
        for f in sorted(self.used_in_files):
            files[f] = bytes(r.randrange(256) for _ in range(r.randint(0, 5)))
        return P, inp, files

    def visible(self, shadow):
        """Global names visible inside a procedure whose formals/locals are `shadow`."""
        vals = {v: x for v, x in self.gvals.items() if v not in shadow}
        gvars = [g for g in self.gvars if g not in shadow]
        arrays = {a: n for a, n in self.garrays.items() if a not in shadow}
        return vals, gvars, arrays

    def gen_proc(self, idx, earlier):
        r = self.r
        kind = 'func' if self.chance(0.5) else 'proc'
        name = ('f%d' if kind == 'func' else 'p%d') % idx
        if self.chance(0.08):
            # a long name (symbol table strings, trace label column)
            name = (name + '_a_procedure_with_a_rather_long_name_indeed_it_goes_on_and_on')[:r.choice([20, 27, 29, 30, 31, 32, 40, 64])]
        p = Proc(kind, name, [])
        used = set()
        avail = [n for n in NAMES]
        nf = r.randint(0, 4) if not self.chance(0.05) else r.randint(5, 10)
        for j in range(nf):
            cand = [q for q in avail if q not in used]
            if not cand:
                break
            n = r.choice(cand)
            used.add(n)
            if self.chance(0.22) and len(cand) >= 2:
                p.formals.append(('array', n))
                info = dict(writable=False, lenformal=None, len=1)
                if self.chance(0.6):
                    ln = n + 'n'
                    info['lenformal'] = ln
                    p.formals.append(('val', ln))
                    used.add(ln)
                p.array_info[n] = info
            else:
                p.formals.append(('val', n))
        nl = r.randint(0, 3)
        for j in range(nl):
            cand = [q for q in avail if q not in used]
            if not cand:
                break
            n = r.choice(cand)
            used.add(n)
            if self.chance(0.12):
                p.locals.append(('val', n, lit(self.small())))
            else:
                p.locals.append(('var', n))
        if self.chance(0.06):
            # a large frame: unused locals before and after the used ones, so that frame offsets need a prefix (>= 16, sometimes >= 256)
            k = r.choice([13, 16, 20, 40, 260])
            cut = r.randint(0, k)
            dummies = [('var', 'u%d' % j) for j in range(k)]
            p.locals = dummies[:cut] + p.locals + dummies[cut:]
        env = self.make_env(p, earlier)
        if kind == 'func' and self.chance(0.55):
            env.pure_only = True
        # array formals may be written only in impure procedures; decide up-front
        for a, info in p.array_info.items():
            if not env.pure_only and self.chance(0.3):
                info['writable'] = True
                env.arrays[a]['writable'] = True
        body = self.stmt(env, r.randint(1, self.cfg.stmt_depth))
        if kind == 'func':
            body = ('seq', [body, ('ret', self.int_expr(env, r.randint(0, 3), PURE if env.pure_only else FULL))])
        p.body = body
        return p

    def make_env(self, p, callees):
        env = Env()
        env.me = p
        env.infunc = p.kind == 'func'
        shadow = set(n for _, n in p.formals) | set(l[1] for l in p.locals)
        vals, gvars, arrays = self.visible(shadow)
        fvals = [n for k, n in p.formals if k == 'val']
        lvals = [l[1] for l in p.locals if l[0] == 'val']
        lvars = [l[1] for l in p.locals if l[0] == 'var']
        env.safe = fvals + lvals
        env.ints = fvals + lvals + sorted(vals) + gvars       # globals are assigned by main before any call
        env.assignable = lvars + gvars
        env.local_assign = list(lvars)
        for a, n in arrays.items():
            env.arrays[a] = dict(len=n, writable=True, glob=True)
        for a, info in p.array_info.items():
            env.arrays[a] = dict(len=1, writable=info['writable'], glob=False)
        env.funcs = [c for c in callees if c.kind == 'func']
        env.procs = [c for c in callees if c.kind == 'proc']
        env.counters = [v for v in lvars][:2]
        env.assignable = [v for v in env.assignable if v not in env.counters]
        env.local_assign = [v for v in env.local_assign if v not in env.counters]
        env.loopvars = {}
        p.reads = p.reads or bool(gvars) or bool(arrays)
        return env

    def rec_template(self, earlier):
        r = self.r
        p = Proc('func', 'rec', [('val', 'n'), ('val', 'a')])
        p.rec = True
        step = r.randint(-3, 3)
        inner = ('call', 'rec', [('bin', '-', ('var', 'n'), lit(1)), ('bin', '+', ('var', 'a'), lit(step))])
        tail = r.choice(['plain', 'plus', 'minus', 'nested'])
        if tail == 'plain':
            e = inner
        elif tail == 'plus':
            e = ('bin', '+', inner, lit(r.randint(0, 2)))
        elif tail == 'minus':
            e = ('bin', '-', lit(r.randint(0, 2)), inner)
        else:
            e = ('bin', '+', ('var', 'n'), ('paren', inner))
        p.body = ('if', ('bin', '<=', ('var', 'n'), lit(0)), ('ret', ('var', 'a')), ('ret', e))
        return p

    def strw_template(self):
        p = Proc('func', 'strw', [('array', 's'), ('val', 'i')])
        p.array_info['s'] = dict(writable=False, lenformal=None, len=1)
        p.body = ('ret', ('idx', 's', ('var', 'i')))
        return p

    def mutual_template(self):
        ev = Proc('func', 'even', [('val', 'n')])
        od = Proc('func', 'odd', [('val', 'n')])
        ev.rec = od.rec = True
        ev.body = ('if', ('bin', '=', ('var', 'n'), lit(0)), ('ret', ('bool', True)), ('ret', ('call', 'odd', [('bin', '-', ('var', 'n'), lit(1))])))
        od.body = ('if', ('bin', '=', ('var', 'n'), lit(0)), ('ret', ('bool', False)), ('ret', ('call', 'even', [('bin', '-', ('var', 'n'), lit(1))])))
        return [ev, od]

    def deep_template(self):
        """Deep recursion with a few locals: depth is chosen by main within the stack budget."""
        p = Proc('func', 'deep', [('val', 'n'), ('val', 'a')])
        p.rec = True
        p.locals = [('var', 't'), ('var', 'u')]
        p.body = ('seq', [('ass', ('var', 't'), ('bin', '+', ('var', 'a'), lit(1))),
                          ('ass', ('var', 'u'), ('var', 'n')),
                          ('if', ('bin', '<=', ('var', 'n'), lit(0)), ('ret', ('var', 't')),
                           ('ret', ('bin', '+', ('call', 'deep', [('bin', '-', ('var', 'n'), lit(1)), ('var', 't')]), ('bin', '-', ('var', 'u'), ('var', 'n')))))])
        return p

    def gen_main(self, plist):
        r = self.r
        p = Proc('proc', 'main', [])
        locs = r.sample(NAMES, r.randint(1, 4))
        for n in locs:
            p.locals.append(('var', n))
        env = self.make_env(p, plist)
        # main initialises every visible global variable and array cell it (or a callee) may read
        init = []
        shadow = set(locs)
        for g in self.gvars:
            if g not in shadow:
                init.append(('ass', ('var', g), self.literal()))
        hidden_globals = [g for g in self.gvars if g in shadow]
        for a, n in sorted(self.garrays.items()):
            if n <= 8:
                for i in range(n):
                    init.append(('ass', ('idx', a, lit(i)), self.literal()))
            else:
                # big arrays (C08): touch the first and last cell only; never read elsewhere
                init.append(('ass', ('idx', a, lit(0)), self.literal()))
                init.append(('ass', ('idx', a, lit(n - 1)), self.literal()))
                env.arrays[a]['len'] = 1
        # a global hidden by a local of main is never initialised: callees must not read it
        if hidden_globals:
            # simplest sound choice: rename main's local
            for hg in hidden_globals:
                idx = [i for i, l in enumerate(p.locals) if l[1] == hg][0]
                newn = hg + 'm'
                p.locals[idx] = ('var', newn)
                init.append(('ass', ('var', hg), self.literal()))
            env = self.make_env(p, plist)
            for a, n in self.garrays.items():
                if n > 8:
                    env.arrays[a]['len'] = 1
        env.ints = [v for v in env.ints]
        body = self.stmt(env, r.randint(2, self.cfg.stmt_depth + 1))
        extra = []
        if self.cfg.mode == 'bulk':
            # a large procedure: several hundred simple statements, so that code offsets inside one procedure pass 1000 and 4096
            n = r.choice([150, 300, 600])
            bulk = []
            for _ in range(n):
                st = self.simple(env)
                if st[0] in ('stop',) or (st[0] == 'syscall' and st[1] == self.callee('exit')):
                    st = ('skip',)
                bulk.append(st)
            extra.append(('seq', bulk))
        if getattr(self, 'strprobe', False):
            # whole words of a packed string literal, observed in full (sign, equality with the expected word, low byte)
            sl = r.choice(STRINGS if self.chance(0.3) else STRINGS[-11:])
            bs = bytes([len(sl) & 0xFF]) + bytes(ord(c) for c in sl)
            bs += b'\0' * (-len(bs) % 4)
            words = [int.from_bytes(bs[i:i + 4], 'little', signed=True) for i in range(0, len(bs), 4)]
            for i in sorted(set([0, len(words) - 1, r.randrange(len(words))])):
                w = ('call', 'strw', [('str', sl), lit(i)])
                put = lambda ch: ('syscall', self.callee('put'), [('chr', ch), lit(0)])
                k = words[i] + r.choice([0, 0, 1]) if words[i] < 2**31 - 1 else words[i]
                extra.append(('if', ('bin', '=', w, lit(k)), put('='), put('#')))
                if words[i] != -2**31:
                    extra.append(('if', ('bin', '<', w, lit(0)), put('-'), put('+')))
                extra.append(('syscall', self.callee('put'), [w, lit(0)]))
        if self.cfg.mode == 'deep':
            depth = r.choice([50, 400, 2000, 8000, 12000])
            v = env.local_assign[0] if env.local_assign else None
            call = ('call', 'deep', [lit(depth), lit(0)])
            extra.append(('syscall', self.callee('put'), [call, lit(0)]))
            p.io = True
        # observability: write the live variables and exit with one of them
        fin = []
        live = [v for v in env.ints if v in env.assignable or v in env.counters][:4]
        for v in live:
            fin.append(('syscall', self.callee('put'), [('var', v), lit(0)]))
        if self.chance(0.7):
            fin.append(('syscall', self.callee('exit'), [self.int_expr(env, 2, PURE)]))
        p.body = ('seq', init + [body] + extra + fin) if (init or extra or fin) else body
        p.io = True
        return p


_TOKEN = re.compile(r'("(?:\\.|[^"\\])*")|(\'(?:\\.|[^\'\\])\')|#[0-9A-Za-z]*|[0-9]+|([A-Za-z][A-Za-z0-9_]*)')
_PPOOL = ['q' + ''.join('_' + x for x in c) for n in range(3) for c in itertools.product('rstu', repeat=n)]
_VPOOL = ['_'.join(c) for n in range(1, 4) for c in itertools.product('rstu', repeat=n)]


# names that look like the labels the compiler generates for itself (with and without the underscore it puts in front)
_LPOOL_PROC = ['lab%d' % i for i in range(0, 40, 2)] + ['const1', 'string1', 'startup', 'exit0', 'main0']
_LPOOL_VAR = ['start', 'exit', 'sp', 'data'] + ['lab%d' % i for i in range(1, 240, 2)] + ['const%d' % i for i in (0, 2, 3)] + ['string%d' % i for i in (0, 2, 3)]


def confuse_names(P, r, pools=None):
    """Rename every identifier into a family in which one name is a prefix of another up to an underscore (procedures q, q_r, q_r_s,
    ...; variables r, r_s, s, ...), so that scope-qualified names such as q_r + s and q + r_s coincide textually - or, with the
    label-like pools, into names such as start, exit, lab3, const0, string0.  The renaming is done on the printed program and parsed
    back, which keeps it consistent across scopes (same old name -> same new name)."""
    pp, vp = (list(_PPOOL), list(_VPOOL)) if pools is None else (list(pools[0]), list(pools[1]))
    r.shuffle(pp)
    if pools is None:
        r.shuffle(vp)
    else:
        head, tail = vp[:4], vp[4:]      # start, exit, sp, data are used first
        r.shuffle(head)
        r.shuffle(tail)
        vp = tail + head                 # pop() takes from the end
    mapping = {}
    try:
        for p in P['procs']:
            if p['name'] != 'main':
                mapping[p['name']] = pp.pop()

        def sub(m):
            w = m.group(3)
            if w is None or w == 'main' or w in xlang.KEYWORDS:
                return m.group(0)
            if w not in mapping:
                mapping[w] = vp.pop()
            return mapping[w]
        text = _TOKEN.sub(sub, xlang.p_prog(P))
    except IndexError:
        return P
    return xlang.resolve_syscall_names(xlang.parse(text))


def gen_program(r, tier='quick', mode='normal'):
    g = Gen(r, Cfg(tier, mode))
    P, inp, files = g.program()
    if mode == 'normal':
        x = r.random()
        if x < 0.08:
            P = confuse_names(P, r)
        elif x < 0.13:
            P = confuse_names(P, r, pools=(_LPOOL_PROC, _LPOOL_VAR))
    return P, inp, files
