"""G-ASM: assembly programs (items, printer, generators) and the decode-walk oracle.

Items are tuples:
  ('label', name) | ('func', name) | ('proc', name)
  ('data', value)                 one DATA word (signed or unsigned 32-bit literal)
  ('imm', mnemonic, value)        instruction with a literal operand
  ('ref', mnemonic, label)        instruction with a label operand
  ('opr', 'BRB'|'ADD'|'SUB'|'SVC')
  ('pad', k)                      k single-byte instructions (printed as k lines)
"""

REL = ['BR', 'BRZ', 'BRN', 'LDAP', 'LDAI', 'LDBI', 'STAI']
ABS = ['LDAM', 'LDBM', 'STAM', 'LDAC', 'LDBC']
IMM = ABS + REL
OPC = {'LDAM': 0, 'LDBM': 1, 'STAM': 2, 'LDAC': 3, 'LDBC': 4, 'LDAP': 5, 'LDAI': 6, 'LDBI': 7, 'STAI': 8,
       'BR': 9, 'BRZ': 10, 'BRN': 11, 'OPR': 13, 'PFIX': 14, 'NFIX': 15}
OPR = {'BRB': 0, 'ADD': 1, 'SUB': 2, 'SVC': 3}
PAD_LINES = ['OPR ADD', 'LDAC 5', 'LDBC 3', 'OPR SUB']
PAD_BYTES = [0xD1, 0x35, 0x43, 0xD2]
M32 = 0xFFFFFFFF


def render(items, style=0):
    """Source text.  `style` perturbs whitespace/comments deterministically."""
    out = []
    n = 0
    for it in items:
        k = it[0]
        n += 1
        deco = (style + n * 7) % 11 if style else 0
        if k == 'label':
            line = it[1]
        elif k == 'func':
            line = 'FUNC ' + it[1]
        elif k == 'proc':
            line = 'PROC ' + it[1]
        elif k == 'data':
            line = 'DATA %d' % it[1]
        elif k == 'imm':
            line = '%s %d' % (it[1], it[2])
        elif k == 'ref':
            line = '%s %s' % (it[1], it[2])
        elif k == 'opr':
            line = 'OPR ' + it[1]
        elif k == 'pad':
            kk = it[1]
            if kk:
                out.append('\n'.join(PAD_LINES[i & 3] for i in range(kk)))
            continue
        else:
            raise ValueError(k)
        if deco == 1:
            line = '  ' + line + '   # c%d' % n
        elif deco == 2:
            line = line.replace(' ', '\t', 1)
        elif deco == 3:
            line = '# comment line\n' + line
        elif deco == 4:
            line = line + ' #'
        elif deco == 5 and ' ' in line:
            line = line.replace(' ', '\n', 1)       # operand on the next line: tokens, not lines
        out.append(line)
    return '\n'.join(out) + '\n'


def decode_at(buf, pos):
    """ISA prefix rule from a clear operand register. Returns (length, opcode, operand, nprefix) or None."""
    oreg = 0
    n = 0
    while pos + n < len(buf):
        b = buf[pos + n]
        opnd = oreg | (b & 15)
        opc = b >> 4
        n += 1
        if opc == 14:
            oreg = (opnd << 4) & M32
        elif opc == 15:
            oreg = (0xFFFFFF00 | (opnd << 4)) & M32
        else:
            return (n, opc, opnd, n - 1)
    return None


class Walk:
    """Result of the decode walk."""

    def __init__(self):
        self.ok = True
        self.why = ''
        self.labels = {}       # name -> byte address
        self.refs = []         # (item index, mnemonic, label, end address, operand, encoded length)
        self.offsets = []      # per item: byte offset where its encoding starts (None for pad)
        self.must_reject = False
        self.size = 0

    def fail(self, why):
        if self.ok:
            self.ok = False
            self.why = why
        return self


def label_is_before_data(items, i):
    j = i + 1
    while j < len(items) and (items[j][0] in ('label', 'func', 'proc') or items[j] == ('pad', 0)):
        j += 1
    return j < len(items) and items[j][0] == 'data'


def walk(items, image):
    """Walk the *source* items with a cursor into the image (bytes, without the header word)."""
    w = Walk()
    cur = 0
    n = len(image)
    for i, it in enumerate(items):
        k = it[0]
        if k in ('label', 'func', 'proc'):
            a = cur
            if label_is_before_data(items, i):
                a = (cur + 3) & ~3
            w.labels[it[1]] = a
            w.offsets.append(a)
        elif k == 'data':
            al = (cur + 3) & ~3
            if al + 4 > n:
                return w.fail('image ends before DATA word of item %d' % i)
            if any(image[cur:al]):
                return w.fail('non-zero alignment padding before DATA (item %d, offset %d)' % (i, cur))
            v = int.from_bytes(image[al:al + 4], 'little')
            if v != it[1] & M32:
                return w.fail('DATA item %d at offset %d holds 0x%x, expected 0x%x' % (i, al, v, it[1] & M32))
            w.offsets.append(al)
            cur = al + 4
        elif k in ('imm', 'ref'):
            d = decode_at(image, cur)
            if d is None:
                return w.fail('image ends inside instruction of item %d (offset %d)' % (i, cur))
            ln, opc, opnd, npf = d
            if opc != OPC[it[1]]:
                return w.fail('item %d (%s) at offset %d decodes to opcode 0x%X' % (i, it[1], cur, opc))
            if k == 'imm':
                if opnd != it[2] & M32:
                    return w.fail('item %d (%s %d) at offset %d has operand 0x%x' % (i, it[1], it[2], cur, opnd))
            else:
                w.refs.append((i, it[1], it[2], cur + ln, opnd, ln))
            w.offsets.append(cur)
            cur += ln
        elif k == 'opr':
            if cur >= n or image[cur] != (0xD0 | OPR[it[1]]):
                return w.fail('item %d (OPR %s) at offset %d is byte %s' % (i, it[1], cur, ('0x%02x' % image[cur]) if cur < n else 'missing'))
            w.offsets.append(cur)
            cur += 1
        elif k == 'pad':
            kk = it[1]
            if cur + kk > n:
                return w.fail('image ends inside padding run of item %d' % i)
            # compare in chunks
            exp = bytes(PAD_BYTES[j & 3] for j in range(min(kk, 4))) * (kk // 4 + 1)
            if image[cur:cur + kk] != exp[:kk]:
                return w.fail('padding run of item %d at offset %d differs' % (i, cur))
            w.offsets.append(cur)
            cur += kk
    end = (cur + 3) & ~3
    if end != n:
        return w.fail('image is %d bytes, source accounts for %d (rounded %d)' % (n, cur, end))
    if any(image[cur:end]):
        return w.fail('non-zero trailing padding')
    w.size = n
    # label references
    for (i, mn, lab, endaddr, opnd, ln) in w.refs:
        if lab not in w.labels:
            return w.fail('reference to undefined label %s was accepted' % lab)
        la = w.labels[lab]
        if mn in REL:
            if (endaddr + opnd) & M32 != la:
                return w.fail('item %d: %s %s ends at %d with operand %d (0x%x) -> %d, label is at %d'
                              % (i, mn, lab, endaddr, opnd if opnd < 2**31 else opnd - 2**32, opnd, (endaddr + opnd) & M32, la))
        else:
            if la & 3:
                w.must_reject = True
                return w.fail('item %d: absolute reference %s %s to a label at byte %d (not word aligned) was accepted with operand %d' % (i, mn, lab, la, opnd))
            if opnd * 4 != la:
                return w.fail('item %d: %s %s has operand %d, label word address is %d' % (i, mn, lab, opnd, la // 4))
    return w


def may_reject(items):
    """May the assembler legitimately reject this program?  Only for an absolute reference to a label
    whose word alignment is not guaranteed by construction (i.e. one that does not directly name a DATA
    word): whether such a label ends up aligned depends on the layout the assembler chooses, which is not
    unique (encodings need not be minimal)."""
    pos = {}
    for i, it in enumerate(items):
        if it[0] in ('label', 'func', 'proc'):
            pos[it[1]] = i
    for it in items:
        if it[0] == 'ref' and it[1] in ABS and it[2] in pos and not label_is_before_data(items, pos[it[2]]):
            return True
    return False


def enc_len(v):
    """Shortest prefix encoding (bytes) of 32-bit value v."""
    v &= M32
    best = 8
    for n in range(1, 9):
        if n * 4 >= 32 or (v >> (4 * n)) == 0:
            best = n
            break
    if v >= 2**31:
        for n in range(2, 9):
            if n * 4 >= 32 or (v >> (4 * n)) == (M32 >> (4 * n)):
                best = min(best, n)
                break
    return best


def layout(items, max_iter=200):
    """Reference layout by growing sizes to a fixed point. Returns (labels, sizes) or None."""
    sizes = {i: 1 for i, it in enumerate(items) if it[0] == 'ref'}
    for _ in range(max_iter):
        cur = 0
        labels = {}
        offs = {}
        for i, it in enumerate(items):
            k = it[0]
            if k in ('label', 'func', 'proc'):
                labels[it[1]] = ((cur + 3) & ~3) if label_is_before_data(items, i) else cur
            elif k == 'data':
                cur = ((cur + 3) & ~3) + 4
            elif k == 'imm':
                v = it[2] & M32
                cur += enc_len(v)
            elif k == 'ref':
                offs[i] = cur
                cur += sizes[i]
            elif k == 'opr':
                cur += 1
            elif k == 'pad':
                cur += it[1]
        changed = False
        for i, it in enumerate(items):
            if it[0] != 'ref':
                continue
            if it[2] not in labels:
                return None
            la = labels[it[2]]
            s = sizes[i]
            while True:
                v = (la - (offs[i] + s)) if it[1] in REL else (la >> 2)
                if enc_len(v) <= s:
                    break
                s += 1
            if s != sizes[i]:
                sizes[i] = s
                changed = True
        if not changed:
            return labels, sizes
    return None


# ---------------------------------------------------------------------------
# Generators (written against a random.Random-like choice source)
# ---------------------------------------------------------------------------

PAD_CHOICES = [0, 1, 2, 3, 12, 13, 14, 15, 16, 17, 18, 236, 250, 254, 255, 256, 257, 258]
PAD_BIG = [4090, 4093, 4094, 4095, 4096, 4097, 4100]
PAD_HUGE = [65530, 65533, 65534, 65535, 65536, 65537, 65540]

IMM_VALUES = [0, 1, 2, 15, 16, 17, 255, 256, 4095, 4096, 65535, 65536, -1, -2, -15, -16, -17, -255, -256, -257, -4096,
              2**31 - 1, -2**31, 2**32 - 1]


def gen_random_program(r, big=False, huge=False):
    """Random multi-label program whose reference lengths depend on each other."""
    nlab = r.randint(1, 8)
    labels = ['L%d' % i for i in range(nlab)]
    nitems = r.randint(2, 40)
    items = []
    # decide label positions: each label defined exactly once at a random slot
    slots = sorted(r.randint(0, nitems) for _ in labels)
    li = 0
    pads = PAD_CHOICES + (PAD_BIG if big else []) + (PAD_HUGE if huge else [])
    for pos in range(nitems + 1):
        while li < nlab and slots[li] == pos:
            kind = 'label'
            x = r.random()
            if x < 0.08:
                kind = 'func'
            elif x < 0.16:
                kind = 'proc'
            # never two labels in a row directly before DATA: keep labels apart by one padding byte if needed
            if items and items[-1][0] in ('label', 'func', 'proc'):
                items.append(('pad', 1))
            items.append((kind, labels[li]))
            li += 1
        if pos == nitems:
            break
        x = r.random()
        # FUNC/PROC name code, not data: never generate them directly before a DATA word
        if items and items[-1][0] in ('func', 'proc') and 0.55 <= x < 0.70:
            x = 0.5
        if x < 0.40:
            mn = r.choice(REL) if r.random() < 0.8 else r.choice(ABS)
            items.append(('ref', mn, r.choice(labels)))
        elif x < 0.55:
            items.append(('pad', r.choice(pads)))
        elif x < 0.70:
            items.append(('data', r.choice(IMM_VALUES) if r.random() < 0.5 else r.randint(-2**31, 2**32 - 1)))
        elif x < 0.88:
            items.append(('imm', r.choice(IMM), r.choice(IMM_VALUES) if r.random() < 0.6 else r.randint(-70000, 70000)))
        else:
            items.append(('opr', r.choice(['ADD', 'SUB', 'BRB', 'SVC'])))
    return normalise(items)


def normalise(items):
    """Generator discipline (what the property gives a meaning to): FUNC/PROC name code, so one that would
    directly name a DATA word becomes a plain label; and only *one* label sits directly before a DATA word
    (a second one is separated by a padding byte)."""
    out = []
    for it in items:
        if it == ('pad', 0):
            continue
        out.append(it)
    items = out
    out = []
    for i, it in enumerate(items):
        if it[0] in ('label', 'func', 'proc') and label_is_before_data(items, i):
            it = ('label', it[1])
            if i + 1 < len(items) and items[i + 1][0] in ('label', 'func', 'proc'):
                out.append(it)
                out.append(('pad', 1))
                continue
        out.append(it)
    return out


def fix_absolute_alignment(items, r=None):
    """Make absolute references legal *by construction*: a label that is referenced through an absolute
    form gets a DATA word directly after it (which word-aligns it).  Returns the number of fixes."""
    absrefs = set(it[2] for it in items if it[0] == 'ref' and it[1] in ABS)
    out = []
    fixes = 0
    for i, it in enumerate(items):
        if it[0] in ('func', 'proc') and it[1] in absrefs:
            it = ('label', it[1])
        out.append(it)
        if it[0] == 'label' and it[1] in absrefs:
            nxt = items[i + 1] if i + 1 < len(items) else None
            if nxt is None or nxt[0] != 'data':
                out.append(('data', (r.randint(0, 2**31 - 1) if r else 7)))
                fixes += 1
    return normalise(out), fixes


def boundary_sweep_programs(boundaries, mnemonics=REL):
    """Deterministic family: one reference whose distance straddles an encoding-length boundary."""
    for b in boundaries:
        for mn in mnemonics:
            for delta in (-3, -2, -1, 0, 1, 2):
                k = b + delta
                if k < 0:
                    continue
                for mis in (0, 1, 2, 3):
                    # forward: distance from the end of the instruction to the label is k
                    yield ('fwd', b, mn, delta, mis), [('pad', mis), ('ref', mn, 'T'), ('pad', k), ('label', 'T'), ('opr', 'ADD')]
                    # backward: label, k bytes, then the reference (distance = -(k + length))
                    yield ('bwd', b, mn, delta, mis), [('pad', mis), ('label', 'T'), ('pad', k), ('ref', mn, 'T'), ('opr', 'SUB')]
                    # absorbed by alignment: a DATA word between reference and label
                    yield ('fwd-data', b, mn, delta, mis), [('pad', mis), ('ref', mn, 'T'), ('pad', max(0, k - 6)), ('data', 1234), ('pad', 2), ('label', 'T'), ('opr', 'ADD')]


def growth_chain_programs(lengths, mnemonics=('BR', 'BRZ', 'LDAP')):
    """Deterministic family: a chain of n references in which reference i crosses an encoding-length boundary only once its
    neighbour has grown by a byte, so that a layout loop needs about n passes (one link settles per pass).
    Forward (boundary B, current length c):  R0 pad(g) R1 T0: pad(g) R2 T1: ... R(n-1) T(n-2): pad(B) T(n-1):   with g = B-1-c,
    so the distance of Ri is g + len(R(i+1)) = B-1 until R(i+1) grows.  Backward (negative operands take at least two bytes, B = 256):
    T(n-1): pad(255) T(n-2): R(n-1) pad(252) T(n-3): R(n-2) ... T0: R1 pad(252) R0, magnitude of Ri = len(R(i+1)) + 252 + len(Ri)."""
    for n in lengths:
        for mn in mnemonics:
            for B, c in ((16, 1), (256, 2)):
                g = B - 1 - c
                items = [('pad', 3)]
                for i in range(n):
                    items.append(('ref', mn, 'T%d' % i))
                    if i > 0:
                        items.append(('label', 'T%d' % (i - 1)))
                    items.append(('pad', g if i < n - 1 else B))
                items += [('label', 'T%d' % (n - 1)), ('opr', 'ADD')]
                yield ('chain-fwd', n, mn, B), items
            items = [('pad', 1), ('label', 'T%d' % (n - 1)), ('pad', 255)]
            for i in range(n - 1, -1, -1):
                if i > 0:
                    items.append(('label', 'T%d' % (i - 1)))
                items.append(('ref', mn, 'T%d' % i))
                if i > 0:
                    items.append(('pad', 252))
            items.append(('opr', 'SUB'))
            yield ('chain-bwd', n, mn, 256), items


def gen_tour(r, nblocks=None, funcproc=False, huge=0.0):
    """Executable tour: n labelled blocks in shuffled source order; block i writes byte id_i to stream 0 and
    transfers control to the next block of a random permutation (BR / BRZ with areg=0 / BRN with areg=-1 /
    LDAP+BRB); ids are held in labelled DATA words read through absolute references. The last block exits.
    Returns (items, expected_output_bytes)."""
    n = nblocks or r.randint(2, 9)
    order = list(range(n))
    r.shuffle(order)                       # execution order
    ids = [r.randint(1, 250) for _ in range(n)]
    src_order = list(range(n))
    r.shuffle(src_order)                   # source order
    pads = [0, 1, 2, 3, 5, 11, 13, 14, 15, 16, 17, 30, 250, 255, 256]
    items = [('ref', 'BR', 'B%d' % order[0]), ('data', 150000)]
    huge_block = r.randrange(n) if (huge and r.random() < huge) else -1
    if huge_block >= 0:
        # word 1 must hold the stack pointer: the first branch has to fit into word 0, so it goes to a trampoline next to it
        items = [('ref', 'BR', 'T0'), ('data', 150000), ('label', 'T0'), ('ref', 'BR', 'B%d' % order[0])]
    # data words (ids), each named by a label directly before it
    dpos = r.random() < 0.5
    data = []
    for i in range(n):
        data += [('label', 'D%d' % i), ('data', ids[i])]
    if dpos:
        items += data
    repeats = {}
    for bi in src_order:
        k = order.index(bi)
        kind = 'label'
        if funcproc:
            kind = r.choice(['label', 'func', 'proc', 'func'])      # FUNC/PROC directives: entries of the symbol table
        blk = [(kind, 'B%d' % bi),
               ('ref', 'LDAM', 'D%d' % bi),            # areg = id
               ('imm', 'LDBM', 1), ('imm', 'STAI', 2),  # sp[2] = id
               ('imm', 'LDAC', 0), ('imm', 'STAI', 3),  # sp[3] = 0 (stream)
               ('imm', 'LDAC', 1), ('opr', 'SVC')]
        if r.random() < 0.6:
            blk.insert(1, ('pad', 0))
        if r.random() < 0.2:
            # the same write requested again by the very next instruction (SVC leaves the registers and the argument slots alone)
            extra = r.randint(1, 2)
            at = blk.index(('opr', 'SVC'))
            for _ in range(extra):
                blk.insert(at, ('opr', 'SVC'))
            repeats[bi] = 1 + extra
        if k == n - 1:
            blk += [('imm', 'LDAC', 0), ('imm', 'LDBM', 1), ('imm', 'STAI', 2), ('imm', 'LDAC', 0), ('opr', 'SVC')]
        else:
            nxt = 'B%d' % order[k + 1]
            how = r.randint(0, 3)
            if how == 0:
                blk += [('ref', 'BR', nxt)]
            elif how == 1:
                blk += [('imm', 'LDAC', 0), ('ref', 'BRZ', nxt)]
            elif how == 2:
                blk += [('imm', 'LDAC', -1), ('ref', 'BRN', nxt)]
            else:
                # LDAP nxt gives the address; move it to breg through the stack slot sp[1], then BRB
                blk += [('ref', 'LDAP', nxt), ('imm', 'LDBM', 1), ('imm', 'STAI', 1), ('imm', 'LDBI', 1), ('opr', 'BRB')]
        # unreachable filler that changes distances
        blk += [('pad', r.choice(pads))]
        if bi == huge_block:
            # an image larger than 64 KiB (or 128 KiB) with live blocks and data words beyond the boundary
            blk[-1] = ('pad', r.choice([65500, 66000, 70000, 131100, 140000, 205000, 400000]))
        items += blk
    if not dpos:
        items += [('pad', r.randint(0, 3))] + data
    expected = b''.join(bytes([ids[b]]) * repeats.get(b, 1) for b in order)
    return items, expected


def classify(items, walkres=None):
    """Class labels for the evidence histogram."""
    cl = set()
    lay = layout(items)
    nrefs = sum(1 for it in items if it[0] == 'ref')
    cl.add('refs=%s' % ('0' if nrefs == 0 else '1' if nrefs == 1 else '2-5' if nrefs <= 5 else '6+'))
    if lay:
        labels, sizes = lay
        pos = {}
        cur = 0
        for s in set(sizes.values()):
            cl.add('ref-len=%d' % s)
        # directions
        order = {}
        for i, it in enumerate(items):
            if it[0] in ('label', 'func', 'proc'):
                order[it[1]] = i
        for i, it in enumerate(items):
            if it[0] == 'ref' and it[2] in order:
                cl.add('forward' if order[it[2]] > i else 'backward')
                cl.add('rel' if it[1] in REL else 'abs')
        if any(s >= 2 for s in sizes.values()):
            cl.add('prefixed-ref')
    if any(it[0] == 'data' for it in items):
        cl.add('has-data')
    if any(it[0] in ('func', 'proc') for it in items):
        cl.add('has-func/proc')
    return cl


# ---------------------------------------------------------------------------
# "Unusual" assembly sources (structured half of C10)
# ---------------------------------------------------------------------------

UNUSUAL = ['undefined-label', 'duplicate-label', 'keyword-label', 'huge-literal', 'minus-at-eof', 'opcode-at-eof', 'opr-anything', 'stray-operand',
           'func-no-name', 'func-number', 'unaligned-abs', 'self-reference', 'only-labels', 'empty', 'comment-eof', 'label-underscore', 'negative-data',
           'many-labels', 'long-identifier', 'nul-and-high-bytes', 'crlf', 'cr-only', 'label-at-eof', 'digit-run', 'odd-whitespace', 'comment-glued']

LAST = {'kind': None}       # irregularity of the most recent gen_unusual call (for classification only)


def gen_unusual(r, want=None):
    items = gen_random_program(r)
    text = render(items, r.randint(0, 10))
    m = want or r.choice(UNUSUAL)
    LAST['kind'] = m
    lines = text.splitlines()
    pos = r.randint(0, len(lines))
    if m == 'undefined-label':
        lines.insert(pos, '%s nowhere%d' % (r.choice(REL + ABS), r.randint(0, 3)))
    elif m == 'duplicate-label':
        labs = [it[1] for it in items if it[0] in ('label', 'func', 'proc')] or ['L0']
        lines.insert(pos, r.choice(labs))
    elif m == 'keyword-label':
        lines.insert(pos, r.choice(['ADD', 'DATA', 'SVC', 'BR', 'OPR', 'FUNC', 'PROC', 'LDAM']))
    elif m == 'huge-literal':
        lines.insert(pos, '%s %s%s' % (r.choice(IMM + ['DATA']), r.choice(['', '-']), ''.join(r.choice('0123456789') for _ in range(r.randint(10, 30))).lstrip('0') or '7'))
    elif m == 'minus-at-eof':
        lines.append(r.choice(['LDAC -', 'DATA -', '-']))
        return '\n'.join(lines)
    elif m == 'opcode-at-eof':
        lines.append(r.choice(IMM + ['OPR', 'DATA']))
        return '\n'.join(lines) + r.choice(['', '\n', ' '])
    elif m == 'opr-anything':
        lines.insert(pos, 'OPR ' + r.choice(['5', 'LDAM', 'x', '-', 'OPR', 'DATA', '# c']))
    elif m == 'stray-operand':
        lines.insert(pos, r.choice(['5', 'BR 1 2', '- 3', 'L0 7', 'DATA 1 2 3', '. ,', '"s"']))
    elif m == 'func-no-name':
        lines.append(r.choice(['FUNC', 'PROC']))
        return '\n'.join(lines) + r.choice(['', '\n'])
    elif m == 'func-number':
        lines.insert(pos, r.choice(['FUNC 5', 'PROC -', 'FUNC BR', 'PROC DATA']))
    elif m == 'unaligned-abs':
        lines.insert(0, 'OPR ADD\nU9\nOPR ADD\n%s U9' % r.choice(ABS))
    elif m == 'self-reference':
        lines.insert(pos, 'S8\n%s S8' % r.choice(REL))
    elif m == 'only-labels':
        return '\n'.join('L%d' % i for i in range(r.randint(1, 50))) + '\n'
    elif m == 'empty':
        return r.choice(['', '\n', '   ', '#', '# c\n'])
    elif m == 'comment-eof':
        lines.append('# no newline at the end')
        return '\n'.join(lines)
    elif m == 'label-underscore':
        lines.insert(pos, r.choice(['a_b', 'x_', 'A_1_2']))
        lines.insert(pos, 'BR a_b')
    elif m == 'negative-data':
        lines.insert(pos, 'DATA -%d' % r.choice([1, 2**31, 2**31 + 1, 2**32 - 1, 2**32]))
    elif m == 'many-labels':
        n = r.randint(100, 400)
        return '\n'.join('M%d\nBR M%d' % (i, (i * 7 + 3) % n) for i in range(n)) + '\n'
    elif m == 'long-identifier':
        nm = 'Q' + 'z' * r.choice([100, 1000, 5000])
        lines.insert(pos, nm + '\nBR ' + nm)
    elif m == 'nul-and-high-bytes':
        lines.insert(pos, r.choice(['\x00', '\xff', 'BR \xe9', 'DATA 1\x00', '\x7f']))
    elif m == 'crlf':
        return '\r\n'.join(lines) + r.choice(['', '\r\n', '\r'])
    elif m == 'cr-only':
        return '\r'.join(lines) + r.choice(['', '\r'])
    elif m == 'label-at-eof':
        lines.append(r.choice(['E7', 'BR E7\nE7', 'E7 ', 'DATA 1\nE7', 'FUNC E7', 'PROC E7\nE7']))
        return '\n'.join(lines)
    elif m == 'digit-run':
        run = r.choice(['', '-']) + r.choice(['', '0' * r.choice([1, 40, 600])]) + ''.join(r.choice('0123456789') for _ in range(r.choice([31, 64, 300, 2000, 5000])))
        lines.insert(pos, '%s %s' % (r.choice(IMM + ['DATA']), run))
        if r.random() < 0.3:
            return '\n'.join(lines)        # possibly the last token of the file
    elif m == 'odd-whitespace':
        sep = r.choice(['\t', '\x0b', '\x0c', '  \t ', '\xa0'])
        lines = [ln.replace(' ', sep) if r.random() < 0.5 else ln for ln in lines]
        lines.insert(pos, r.choice(['\t', '\x0c', ' \t \x0b']))
    elif m == 'comment-glued':
        lines.insert(pos, r.choice(['LDAC 1# c', 'G5# c\nBR G5', 'DATA 3#', 'BR#\n', 'OPR ADD#x', '#\x00', '##', 'LDAC -#1']))
    return '\n'.join(lines) + '\n'
