"""Shared driver code of the step-level lock-step checks (C02: hexsim vs ISA, C03: RTL vs ISA)."""
import json
import os
import subprocess

from . import build, driver, toolchain


IMAGE_BUDGET_S = 900      # the longest legitimate image run (xhexb compiling a program, thorough tier) takes a few minutes


def run_harness(P, exe, mode_args, seed, n, scratch, tag, size=100):
    d = os.path.join(scratch, tag)
    os.makedirs(d, exist_ok=True)
    env = driver.san_env({'RC_PARAMS': 'seed=%d max_success=%d max_size=%d' % (seed, n, size),
                          P+'_OUT': os.path.join(d, 'out.json'), P+'_FAIL': os.path.join(d, 'fail.json'), P+'_DIR': d})
    return subprocess.Popen([exe] + mode_args, stdout=subprocess.PIPE, stderr=subprocess.PIPE, env=env), d


def state_args(st, byte):
    return ['state'] + [str(st[k]) for k in ('pc', 'areg', 'breg', 'oreg', 'target', 'targetVal', 'fetchWord', 'sp')] + \
        [str(v) for v in st['spVals']] + [str(st['svcNum']), '1' if st['steer'] else '0', 'x' + st['input'], str(byte)]


def rerun_case(P, exe, case, scratch, tag='rerun'):
    """Re-execute a failing case outside rapidcheck. Returns (failed, diff)."""
    d = os.path.join(scratch, tag)
    os.makedirs(d, exist_ok=True)
    env = driver.san_env({P+'_FAIL': os.path.join(d, 'fail.json'), P+'_DIR': d})
    try:
        os.unlink(os.path.join(d, 'fail.json'))
    except OSError:
        pass
    if case['kind'] == 'grid':
        args = state_args(case['state'], case.get('byte', -1))
    else:
        img = os.path.join(d, 'replay.bin')
        inp = os.path.join(d, 'replay.in')
        if case.get('file'):
            open(img, 'wb').write(bytes.fromhex(case['file']))
        else:
            img = case['path']
        open(inp, 'wb').write(bytes.fromhex(case.get('input', '')))
        args = ['image', img, inp, str(case.get('max_steps', 50000000))]
    try:
        r = subprocess.run([exe] + args, stdout=subprocess.PIPE, stderr=subprocess.PIPE, env=env, timeout=IMAGE_BUDGET_S * driver.TIMEOUT_SCALE)
    except subprocess.TimeoutExpired:
        return True, 'the harness did not finish within %d s (the implementation hung, or grew without bound, while loading or running this case)' % IMAGE_BUDGET_S
    fp = os.path.join(d, 'fail.json')
    if os.path.exists(fp):
        return True, json.load(open(fp)).get('diff', '')
    if r.returncode != 0:
        return True, 'harness exited %d: %s' % (r.returncode, r.stderr.decode(errors='replace')[-800:])
    return False, ''


def report(ctx, P, exe, case, scratch):
    fails = 0
    diff = case.get('diff', '')
    for i in range(3):
        f, d = rerun_case(P, exe, case, scratch)
        fails += 1 if f else 0
        diff = d or diff
    if fails < 3:
        ctx.flaky.append({'case': case, 'fails_of_3': fails})
        return
    ctx.violation(case, diff)


def run(ctx, P, target, n_grid, n_seq):
    exe = build.exe(target)
    quick = ctx.tier == 'quick'
    with driver.Scratch(target) as scratch:
        # regression corpus
        for path in driver.regress_files(ctx.prop):
            case = driver.load_json(path)
            f, d = rerun_case(P, exe, case, scratch)
            ctx.evaluations += 1
            if f:
                ctx.violation(case, 'regression corpus %s: %s' % (os.path.basename(path), d))
        procs = []
        W = driver.NCPU
        n_grid = n_grid[0] if quick else n_grid[1]
        n_seq = n_seq[0] if quick else n_seq[1]
        for w in range(W):
            procs.append(('grid', run_harness(P, exe, ['grid'], ctx.seed * 1000 + w + 1, n_grid, scratch, 'grid%d' % w)))
        for w in range(W):
            procs.append(('seq', run_harness(P, exe, ['seq'], ctx.seed * 1000 + 500 + w + 1, n_seq, scratch, 'seq%d' % w)))
        # toolchain images (built while the rapidcheck workers run)
        images = toolchain.shipped_images(scratch, include_xhexb=not quick)
        img_procs = []
        for name, img, inp in images:
            d = os.path.join(scratch, 'img-' + name)
            os.makedirs(d, exist_ok=True)
            ip = os.path.join(d, 'input')
            open(ip, 'wb').write(inp)
            env = driver.san_env({P+'_OUT': os.path.join(d, 'out.json'), P+'_FAIL': os.path.join(d, 'fail.json'), P+'_DIR': d})
            img_procs.append((name, img, inp, d, subprocess.Popen([exe, 'image', img, ip, '60000000'], stdout=subprocess.PIPE, stderr=subprocess.PIPE, env=env)))
        grid_distinct = 0
        for kind, (p, d) in procs:
            so, se = p.communicate()
            outp = os.path.join(d, 'out.json')
            if os.path.exists(outp):
                o = json.load(open(outp))
                if kind == 'grid':
                    ctx.evaluations += o['defined_grid_steps'] + o['undefined'] + o['out_of_domain']
                else:
                    ctx.evaluations += o['cases']
                ctx.nontrivial_extra += o['distinct']
                ctx.discarded['undefined_encoding'] += o['undefined']
                ctx.discarded['out_of_domain'] += o['out_of_domain']
                for k, v in o['classes'].items():
                    ctx.classes[kind + ':' + k] += v
                for s in o['samples'][:1]:
                    ctx.sample({kind: s})
                ctx.notes['steps_compared'] = ctx.notes.get('steps_compared', 0) + o['steps']
            fp = os.path.join(d, 'fail.json')
            if os.path.exists(fp):
                report(ctx, P, exe, json.load(open(fp)), scratch)
            elif p.returncode != 0:
                ctx.error(target + ' %s worker exited %d without a counterexample: %s' % (kind, p.returncode, se.decode(errors='replace')[-1500:]))
        for name, img, inp, d, p in img_procs:
            try:
                so, se = p.communicate(timeout=(240 if quick else IMAGE_BUDGET_S) * driver.TIMEOUT_SCALE)
            except subprocess.TimeoutExpired:
                p.kill()
                so, se = p.communicate()
                se = b'TIMEOUT'
            outp = os.path.join(d, 'out.json')
            if os.path.exists(outp):
                o = json.load(open(outp))
                ctx.evaluations += 1
                ctx.nontrivial_extra += o['distinct']
                ctx.notes['steps_compared'] = ctx.notes.get('steps_compared', 0) + o['steps']
                ctx.notes.setdefault('images', {})[name] = o['steps']
                for k, v in o['classes'].items():
                    ctx.classes['image:' + k] += v
            fp = os.path.join(d, 'fail.json')
            if os.path.exists(fp):
                case = json.load(open(fp))
                case['name'] = name
                if not case.get('file'):
                    case['file'] = open(img, 'rb').read().hex()
                case.pop('path', None)
                report(ctx, P, exe, case, scratch)
            elif p.returncode != 0:
                # killed (out of memory, time-out) or died without leaving a counterexample: the image itself is the replayable case
                case = dict(kind='image', name=name, file=open(img, 'rb').read().hex(), input=inp.hex(), max_steps=60000000,
                            diff='the harness %s while loading or running image %s' % ('did not finish in time' if se == b'TIMEOUT' else 'was killed or exited with status %d' % p.returncode, name))
                if ctx.notes.get('image_runs_killed', 0) == 0:
                    f1, d1 = rerun_case(P, exe, case, scratch, tag='killed')
                    if f1:
                        ctx.violation(case, case['diff'] + ' (confirmed by a second run: ' + d1[:200] + ')')
                    else:
                        ctx.error(target + ' image %s exited %d once, and passed when run again: %s' % (name, p.returncode, se.decode(errors='replace')[-600:]))
                ctx.notes['image_runs_killed'] = ctx.notes.get('image_runs_killed', 0) + 1
        ctx.min_nontrivial = 1000


def replay(path, P, target, prop):
    case = driver.load_json(path)
    exe = build.exe(target)
    with driver.Scratch('lsr') as scratch:
        f, d = rerun_case(P, exe, case, scratch)
    print('replay %s: %s %s' % (path, 'FAIL' if f else 'PASS', d))
    if f:
        print('VIOLATION property=%s replay=%s' % (prop, path))
    return 1 if f else 0
