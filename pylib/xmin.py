"""AST minimiser for X programs (delta debugging over the tree).

Hypothesis shrinks the choice sequence; it cannot see the tree, so a shrunk example is still
surrounded by dead declarations.  This pass keeps a step only if the caller's predicate still holds
(the reference still accepts the pair *and* the same oracle still fails in the same way).
"""
import copy


def _stmt_variants(s):
    """Smaller statements that could replace s."""
    k = s[0]
    out = []
    if k != 'skip':
        out.append(('skip',))
    if k == 'if':
        out += [s[2], s[3]]
    elif k == 'while':
        out += [s[2]]
    elif k == 'seq':
        if len(s[1]) == 1:
            out.append(s[1][0])
        for i in range(len(s[1])):
            rest = s[1][:i] + s[1][i + 1:]
            if rest:
                out.append(('seq', rest))
    return out


def _expr_variants(e):
    k = e[0]
    out = []
    if k in ('num', 'hex', 'bool', 'chr'):
        if e != ('num', 0):
            out.append(('num', 0))
        return out
    if k == 'var' or k == 'str':
        return [('num', 0), ('num', 1)]
    out += [('num', 0), ('num', 1)]
    if k in ('neg', 'not', 'paren'):
        out.append(e[1])
    elif k == 'bin':
        out += [e[2], e[3]]
    elif k == 'idx':
        out.append(e[2])
    elif k in ('call', 'syscall'):
        out += list(e[2])
    return out


def _walk_exprs(e, path, acc):
    acc.append(path)
    k = e[0]
    if k in ('neg', 'not', 'paren'):
        _walk_exprs(e[1], path + (1,), acc)
    elif k == 'bin':
        _walk_exprs(e[2], path + (2,), acc)
        _walk_exprs(e[3], path + (3,), acc)
    elif k == 'idx':
        _walk_exprs(e[2], path + (2,), acc)
    elif k in ('call', 'syscall'):
        for i, a in enumerate(e[2]):
            _walk_exprs(a, path + (2, i), acc)


def _get(node, path):
    for p in path:
        node = node[p]
    return node


def _set(node, path, new):
    if not path:
        return new
    p = path[0]
    if isinstance(node, tuple):
        lst = list(node)
        lst[p] = _set(node[p], path[1:], new)
        return tuple(lst)
    lst = list(node)
    lst[p] = _set(node[p], path[1:], new)
    return lst


def _stmt_paths(s, path, acc):
    acc.append(path)
    k = s[0]
    if k == 'if':
        _stmt_paths(s[2], path + (2,), acc)
        _stmt_paths(s[3], path + (3,), acc)
    elif k == 'while':
        _stmt_paths(s[2], path + (2,), acc)
    elif k == 'seq':
        for i, x in enumerate(s[1]):
            _stmt_paths(x, path + (1, i), acc)


def _stmt_expr_slots(s):
    """Paths (within statement s) of its top-level expressions."""
    k = s[0]
    if k == 'ret':
        return [(1,)]
    if k in ('if', 'while'):
        return [(1,)]
    if k == 'ass':
        return ([(1, 2)] if s[1][0] == 'idx' else []) + [(2,)]
    if k in ('pcall', 'syscall'):
        return [(2, i) for i in range(len(s[2]))]
    return []


def _has_call(e):
    if not isinstance(e, tuple):
        return False
    if e and e[0] in ('call', 'syscall'):
        return True
    return any(_has_call(x) if isinstance(x, tuple) else any(_has_call(y) for y in x) if isinstance(x, list) else False for x in e)


def _stmt_in_discipline(s):
    k = s[0]
    if k == 'if':
        if s[2] == ('skip',) and s[3] == ('skip',) and _has_call(s[1]):
            return False          # xcmp documents dropping such a statement: the generator never asks whether its condition is evaluated
        return _stmt_in_discipline(s[2]) and _stmt_in_discipline(s[3])
    if k == 'while':
        return _stmt_in_discipline(s[2])
    if k == 'seq':
        return all(_stmt_in_discipline(x) for x in s[1])
    return True


def in_discipline(P):
    """The minimiser must not leave the generator's domain (DESIGN 4.2), or it turns a real failure into a non-finding."""
    return all(_stmt_in_discipline(p['body']) for p in P['procs'])


def minimise(P, inp, files, still_fails, budget=300):
    """Returns the minimised (P, inp, files)."""
    runs = [0]

    def ok(P2, inp2, files2):
        if runs[0] >= budget:
            return False
        if not in_discipline(P2):
            return False
        runs[0] += 1
        try:
            return still_fails(P2, inp2, files2)
        except Exception:
            return False

    P = copy.deepcopy(P)
    changed = True
    while changed and runs[0] < budget:
        changed = False
        # procedures (never main)
        for i in range(len(P['procs']) - 1, -1, -1):
            if P['procs'][i]['name'] == 'main':
                continue
            Q = dict(P, procs=P['procs'][:i] + P['procs'][i + 1:])
            if ok(Q, inp, files):
                P = Q
                changed = True
        # global declarations
        for i in range(len(P['globals']) - 1, -1, -1):
            Q = dict(P, globals=P['globals'][:i] + P['globals'][i + 1:])
            if ok(Q, inp, files):
                P = Q
                changed = True
        # locals and formals are left alone (they change frame layout, which is often the point)
        # statements
        for pi in range(len(P['procs'])):
            progress = True
            while progress and runs[0] < budget:
                progress = False
                paths = []
                _stmt_paths(P['procs'][pi]['body'], (), paths)
                for path in paths:
                    try:
                        s = _get(P['procs'][pi]['body'], path)
                    except (IndexError, TypeError):
                        continue
                    for v in _stmt_variants(s):
                        procs = list(P['procs'])
                        procs[pi] = dict(procs[pi], body=_set(procs[pi]['body'], path, v))
                        Q = dict(P, procs=procs)
                        if ok(Q, inp, files):
                            P = Q
                            progress = True
                            changed = True
                            break
                    if progress:
                        break
        # expressions
        for pi in range(len(P['procs'])):
            progress = True
            while progress and runs[0] < budget:
                progress = False
                spaths = []
                _stmt_paths(P['procs'][pi]['body'], (), spaths)
                for sp in spaths:
                    s = _get(P['procs'][pi]['body'], sp)
                    for slot in _stmt_expr_slots(s):
                        epaths = []
                        _walk_exprs(_get(s, slot), (), epaths)
                        for ep in epaths:
                            e = _get(_get(s, slot), ep)
                            for v in _expr_variants(e):
                                if v == e:
                                    continue
                                ns = _set(s, slot + ep, v)
                                procs = list(P['procs'])
                                procs[pi] = dict(procs[pi], body=_set(procs[pi]['body'], sp, ns))
                                Q = dict(P, procs=procs)
                                if ok(Q, inp, files):
                                    P = Q
                                    progress = True
                                    changed = True
                                    break
                            if progress:
                                break
                        if progress:
                            break
                    if progress:
                        break
        # input
        while inp and ok(P, inp[:-1], files):
            inp = inp[:-1]
            changed = True
    return P, inp, files
