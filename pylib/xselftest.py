"""Self-test of the X reference interpreter against the expected results hard-coded in tests/unit/x_programs.cpp,
and of the pretty-printer (print/parse round trip on generated programs)."""
import os
import random

from . import build, xgen, xlang, xref

REPO = build.REPO

EXPECT = [
    ('mul.x', [([1, 1], 1, None), ([3, 13], 39, None), ([13, 3], 39, None)]),
    ('div.x', [([1, 1], 1, None), ([13, 3], 4, None), ([3, 13], 0, None)]),
    ('fib.x', [([n], v, None) for n, v in enumerate([0, 1, 1, 2, 3, 5, 8])]),
    ('fac.x', [([n], v, None) for n, v in enumerate([1, 1, 2, 6, 24, 120])]),
    ('mul2.x', [([1, 4], 4, None), ([2, 4], 8, None), ([3, 4], 12, None), ([4, 4], 16, None)]),
    ('exp2.x', [([1], 2, None), ([2], 4, None), ([3], 8, None), ([4], 16, None)]),
    ('hello_putval.x', [([], None, b'hello world\n')]),
    ('hello_prints.x', [([], None, b'hello world\n')]),
    ('printn.x', [([0], None, b'0'), ([1], None, b'1'), ([42], None, b'42'), ([127], None, b'127')]),
    ('printhex.x', [([0], None, b'0'), ([1], None, b'1'), ([42], None, b'2a'), ([127], None, b'7f')]),
    ('strlen.x', [([], 3, None)]),
    # bubblesort.x is not used: it subscripts data[10] of a 10-element array (outside the language definition)
]


def normalise_shipped(P):
    """The shipped programs take liberties the language definition does not grant (main declared as a func
    whose body is a system call; a surplus actual).  Bring them into the subset the reference defines."""
    arity = {p['name']: len(p['formals']) for p in P['procs']}
    for p in P['procs']:
        if p['name'] == 'main':
            p['kind'] = 'proc'

    def fe(e):
        if not isinstance(e, tuple):
            return e
        if e[0] == 'call' and e[1] in arity:
            return ('call', e[1], [fe(a) for a in e[2]][:arity[e[1]]])
        return tuple(fe(x) if isinstance(x, tuple) else ([fe(y) for y in x] if isinstance(x, list) else x) for x in e)
    for p in P['procs']:
        p['body'] = fe(p['body'])


def run(scratch, failures):
    n = 0
    for name, cases in EXPECT:
        path = os.path.join(REPO, 'tests/x', name)
        try:
            P = xlang.resolve_syscall_names(xlang.parse(open(path).read()))
            normalise_shipped(P)
        except Exception as e:
            failures.append('xselftest: cannot parse %s: %r' % (name, e))
            continue
        for inp, ev, out in cases:
            n += 1
            try:
                I = xref.Interp(P, bytes(inp), max_steps=3000000, max_depth=2000, wrap=True)
                got = I.run()
            except Exception as e:
                failures.append('xselftest: %s %r raised %r' % (name, inp, e))
                continue
            if ev is not None and got != ev:
                failures.append('xselftest: %s %r exit %r, expected %r' % (name, inp, got, ev))
            if out is not None and bytes(I.out.get('con', b'')) != out:
                failures.append('xselftest: %s %r printed %r, expected %r' % (name, inp, bytes(I.out.get('con', b'')), out))
    # printer round trip on generated ASTs
    for seed in range(60):
        P, inp, files = xgen.gen_program(random.Random(seed))
        src = xlang.p_prog(P)
        n += 1
        try:
            P2 = xlang.resolve_syscall_names(xlang.parse(src))
            if xlang.strip_parens(P2) != xlang.strip_parens(P):
                failures.append('xselftest: print/parse round trip differs for generator seed %d' % seed)
        except Exception as e:
            failures.append('xselftest: generated program %d does not parse: %r' % (seed, e))
    return n
