"""X reference interpreter with definedness checking (the trusted X semantics, from xhexnotes.pdf).

It evaluates the generator's AST (never xcmp's parse) and decides whether a (program, input) pair is
*in the domain* of C01: every way of leaving it raises Undefined(reason), and the per-reason histogram
goes into the evidence.  `wrap=True` switches overflow from "outside the domain" to two's-complement
wrap-around (used by selftest on the shipped programs, which overflow on purpose, and by C07).
"""
from .xlang import INT_MAX, INT_MIN, wrap32


class Undefined(Exception):
    pass


class Exit(Exception):
    def __init__(self, v):
        Exception.__init__(self)
        self.v = v


class Return(Exception):
    def __init__(self, v, eff):
        Exception.__init__(self)
        self.v = v
        self.eff = eff


class Arr:
    __slots__ = ('v', 'name', 'ro')

    def __init__(self, n, name, vals=None, ro=False):
        self.v = list(vals) if vals is not None else [None] * n
        self.name = name
        self.ro = ro


class Eff:
    """Read set, write set (global variables and array cells) and an I/O flag of one evaluation."""
    __slots__ = ('r', 'w', 'io')

    def __init__(self):
        self.r = None
        self.w = None
        self.io = False

    def read(self, loc):
        if self.r is None:
            self.r = set()
        self.r.add(loc)

    def write(self, loc):
        if self.w is None:
            self.w = set()
        self.w.add(loc)

    def merge(self, o):
        if o.r:
            if self.r is None:
                self.r = set(o.r)
            else:
                self.r |= o.r
        if o.w:
            if self.w is None:
                self.w = set(o.w)
            else:
                self.w |= o.w
        if o.io:
            self.io = True


def conflict(a, b, io_ordered=False):
    """Bernstein conditions between two evaluations whose order X leaves open."""
    if a.w and ((b.r and a.w & b.r) or (b.w and a.w & b.w)):
        return True
    if b.w and a.r and b.w & a.r:
        return True
    if not io_ordered and a.io and b.io:
        return True
    return False


def pack_string(s):
    """Packed string literal: byte 0 = length, then the characters, little-endian within 32-bit words."""
    bs = bytes([len(s) & 0xFF]) + bytes(ord(c) & 0xFF for c in s)
    while len(bs) % 4:
        bs += b'\0'
    return [wrap32(int.from_bytes(bs[i:i + 4], 'little')) for i in range(0, len(bs), 4)]


class Interp:
    def __init__(self, P, inp=b'', files=None, max_steps=200000, max_depth=200, wrap=False):
        self.P = P
        self.inp = inp
        self.pos = 0
        self.files = dict(files or {})       # index -> bytes (simin<index>)
        self.fpos = {}
        self.out = {}                         # 'con' or file index -> bytearray
        self.used_in = set()
        self.used_out = set()
        self.steps = 0
        self.max_steps = max_steps
        self.max_depth = max_depth
        self.depth = 0
        self.max_depth_seen = 0
        self.wrap = wrap
        self.overflowed = False
        self.procs = {p['name']: p for p in P['procs']}
        self.g = {}
        self.calls = []                       # call trace: callee names in order of entry
        self.calls_active = []
        self.call_order_open = False
        self.feat = set()
        self.counts = dict(calls=0, loops=0, reads=0, writes=0, arrayops=0)
        for g in P['globals']:
            if g[0] == 'val':
                self.g[g[1]] = ('val', self.const(g[2], None))
            elif g[0] == 'var':
                self.g[g[1]] = ['var', None]
            else:
                n = self.const(g[2], None)
                if n < 0 or n > 200000:
                    raise Undefined('array-length')
                self.g[g[1]] = ('arr', Arr(n, g[1]))

    # -- helpers ------------------------------------------------------------
    def const(self, e, fr):
        v, _ = self.ev(e, fr)
        if isinstance(v, Arr):
            raise Undefined('array-valued val')
        return v

    def tick(self):
        self.steps += 1
        if self.steps > self.max_steps:
            raise Undefined('steps')

    def arith(self, v):
        if v < INT_MIN or v > INT_MAX:
            if not self.wrap:
                raise Undefined('overflow')
            self.overflowed = True
            v = wrap32(v)
        return v

    def lookup(self, fr, name):
        if fr is not None and name in fr:
            return fr[name], 'l'
        if name in self.g:
            return self.g[name], 'g'
        raise KeyError('unknown name ' + name)

    def syscall_id(self, callee, fr):
        if isinstance(callee, int):
            return callee
        c, _ = self.lookup(fr, callee)
        if c[0] != 'val':
            raise KeyError('system call through non-val ' + callee)
        return c[1]

    # -- expressions --------------------------------------------------------
    def ev(self, e, fr):
        self.tick()
        k = e[0]
        if k == 'num' or k == 'hex':
            return wrap32(e[1]), Eff()
        if k == 'bool':
            return int(e[1]), Eff()
        if k == 'chr':
            return ord(e[1]), Eff()
        if k == 'str':
            self.feat.add('string')
            return Arr(0, 'str', pack_string(e[1]), ro=True), Eff()
        if k == 'paren':
            return self.ev(e[1], fr)
        if k == 'var':
            c, sc = self.lookup(fr, e[1])
            ef = Eff()
            if c[0] == 'val' or c[0] == 'arr':
                return c[1], ef
            if c[1] is None:
                raise Undefined('unassigned-var')
            if sc == 'g':
                ef.read(('g', e[1]))
            return c[1], ef
        if k == 'idx':
            c, sc = self.lookup(fr, e[1])
            a = c[1]
            if not isinstance(a, Arr):
                raise KeyError('subscript of non-array ' + e[1])
            i, ef = self.ev(e[2], fr)
            if isinstance(i, Arr):
                raise KeyError('array as subscript')
            if i < 0 or i >= len(a.v):
                raise Undefined('subscript')
            if a.v[i] is None:
                raise Undefined('unassigned-elem')
            ef.read(('a', id(a), i))
            self.feat.add('arrayread')
            self.counts['arrayops'] += 1
            return a.v[i], ef
        if k == 'syscall':
            sid = self.syscall_id(e[1], fr)
            if sid != 2 or len(e[2]) != 1:
                raise KeyError('only read is an expression')
            st, ef = self.ev(e[2][0], fr)
            ef.io = True
            return self.do_read(st), ef
        if k == 'call':
            return self.call(e[1], e[2], fr, True)
        if k == 'neg':
            v, ef = self.ev(e[1], fr)
            return self.arith(-v), ef
        if k == 'not':
            v, ef = self.ev(e[1], fr)
            if v not in (0, 1):
                raise Undefined('nonbool')
            return 1 - v, ef
        if k == 'bin':
            op = e[1]
            if op == 'and' or op == 'or':
                l, el = self.ev(e[2], fr)
                if l not in (0, 1):
                    raise Undefined('nonbool')
                if (op == 'and' and l == 0) or (op == 'or' and l == 1):
                    self.feat.add('shortcircuit-taken')
                    return l, el
                self.feat.add('shortcircuit-not-taken')
                r, er = self.ev(e[3], fr)
                if r not in (0, 1):
                    raise Undefined('nonbool')
                el.merge(er)
                return r, el
            c0 = self.counts['calls']
            l, el = self.ev(e[2], fr)
            c1 = self.counts['calls']
            r, er = self.ev(e[3], fr)
            if c1 > c0 and self.counts['calls'] > c1:
                # both operands performed calls: X leaves their order open, so the *sequence* of calls is not unique
                self.call_order_open = True
            if isinstance(l, Arr) or isinstance(r, Arr):
                raise KeyError('array operand')
            if conflict(el, er):
                raise Undefined('order')
            el.merge(er)
            if op == '+':
                return self.arith(l + r), el
            if op == '-':
                return self.arith(l - r), el
            if op == '=':
                return int(l == r), el
            if op == '~=':
                return int(l != r), el
            d = l - r
            # the relational operators are defined through each other ((x <= y) = not (y < x), ...), so an
            # implementation may form either difference: both x-y and y-x must be representable
            if d < -INT_MAX or d > INT_MAX:
                if not self.wrap:
                    raise Undefined('cmp-overflow')
                # wrap mode mirrors the subtract-and-test-sign implementation
                self.overflowed = True
                dd = wrap32(d)
                if op == '<':
                    return int(dd < 0), el
                if op == '>=':
                    return int(not dd < 0), el
                dd2 = wrap32(r - l)
                if op == '>':
                    return int(dd2 < 0), el
                return int(not dd2 < 0), el
            if op == '<':
                return int(l < r), el
            if op == '<=':
                return int(l <= r), el
            if op == '>':
                return int(l > r), el
            if op == '>=':
                return int(l >= r), el
        raise KeyError('bad expression %r' % (e,))

    # -- I/O ----------------------------------------------------------------
    def do_read(self, st):
        self.feat.add('read')
        self.counts['reads'] += 1
        if st < 256:
            if self.pos < len(self.inp):
                v = self.inp[self.pos]
                self.pos += 1
                return v
            self.feat.add('eof-read')
            return 255
        f = (st >> 8) & 7
        if f in self.used_out:
            raise Undefined('io-direction')
        self.used_in.add(f)
        self.feat.add('file-read')
        data = self.files.get(f, b'')
        p = self.fpos.get(f, 0)
        if p < len(data):
            self.fpos[f] = p + 1
            return data[p]
        self.feat.add('eof-read')
        return 255

    def do_write(self, v, st):
        self.feat.add('write')
        self.counts['writes'] += 1
        if st < 256:
            key = 'con'
        else:
            key = (st >> 8) & 7
            if key in self.used_in:
                raise Undefined('io-direction')
            self.used_out.add(key)
            self.feat.add('file-write')
        self.out.setdefault(key, bytearray()).append(v & 0xFF)

    # -- calls --------------------------------------------------------------
    def eval_actuals(self, args, fr):
        vals = []
        effs = []
        for a in args:
            v, ea = self.ev(a, fr)
            vals.append(v)
            effs.append(ea)
        # I/O between actuals is ordered left to right; a write in one actual that another reads or writes is not.
        for i in range(len(effs)):
            for j in range(i + 1, len(effs)):
                if conflict(effs[i], effs[j], io_ordered=True):
                    raise Undefined('order-actuals')
        ef = Eff()
        for ea in effs:
            ef.merge(ea)
        return vals, ef

    def call(self, name, args, fr, want_value):
        p = self.procs.get(name)
        if p is None:
            raise KeyError('unknown procedure ' + name)
        if (p['kind'] == 'func') != want_value:
            raise KeyError('kind mismatch calling ' + name)
        if len(args) != len(p['formals']):
            raise KeyError('arity mismatch calling ' + name)
        self.tick()
        vals, ef = self.eval_actuals(args, fr)
        nf = {}
        for (k, n), v in zip(p['formals'], vals):
            if k == 'val':
                if isinstance(v, Arr):
                    raise KeyError('array passed to val formal')
                nf[n] = ('val', v)
            elif k == 'array':
                if not isinstance(v, Arr):
                    raise KeyError('value passed to array formal')
                nf[n] = ('arr', v)
                self.feat.add('array-formal')
            else:
                raise KeyError('unsupported formal kind ' + k)
        for l in p['locals']:
            if l[0] == 'val':
                nf[l[1]] = ('val', self.const(l[2], nf))
            else:
                nf[l[1]] = ['var', None]
        self.depth += 1
        if self.depth > self.max_depth:
            raise Undefined('depth')
        self.max_depth_seen = max(self.max_depth_seen, self.depth)
        self.counts['calls'] += 1
        self.feat.add('call')
        if name in self.calls_active:
            self.feat.add('recursion')
        self.calls_active.append(name)
        self.calls.append(name)
        try:
            be = self.ex(p['body'], nf)
            if want_value:
                raise Undefined('no-return')
            rv = None
        except Return as r:
            if not want_value:
                raise KeyError('return in procedure')
            rv = r.v
            be = r.eff
        finally:
            self.calls_active.pop()
            self.depth -= 1
        ef.merge(be)
        return rv, ef

    # -- statements ---------------------------------------------------------
    def ex(self, st, fr):
        self.tick()
        k = st[0]
        if k == 'skip':
            return Eff()
        if k == 'stop':
            raise Exit(0)
        if k == 'ret':
            v, ef = self.ev(st[1], fr)
            if isinstance(v, Arr):
                raise KeyError('array returned')
            raise Return(v, ef)
        if k == 'seq':
            ef = Eff()
            for x in st[1]:
                try:
                    ef.merge(self.ex(x, fr))
                except Return as r:
                    r.eff.merge(ef)
                    raise
            return ef
        if k == 'if':
            c, ef = self.ev(st[1], fr)
            if c not in (0, 1):
                raise Undefined('nonbool-cond')
            try:
                ef.merge(self.ex(st[2] if c else st[3], fr))
            except Return as r:
                r.eff.merge(ef)
                raise
            return ef
        if k == 'while':
            ef = Eff()
            while True:
                c, ec = self.ev(st[1], fr)
                ef.merge(ec)
                if c not in (0, 1):
                    raise Undefined('nonbool-cond')
                if not c:
                    return ef
                self.feat.add('loop')
                self.counts['loops'] += 1
                try:
                    ef.merge(self.ex(st[2], fr))
                except Return as r:
                    r.eff.merge(ef)
                    raise
        if k == 'ass':
            t = st[1]
            if t[0] == 'var':
                v, ef = self.ev(st[2], fr)
                if isinstance(v, Arr):
                    raise KeyError('array assigned')
                c, sc = self.lookup(fr, t[1])
                if c[0] != 'var':
                    raise KeyError('assignment to non-variable ' + t[1])
                c[1] = v
                if sc == 'g':
                    ef.write(('g', t[1]))
                return ef
            c, sc = self.lookup(fr, t[1])
            a = c[1]
            if not isinstance(a, Arr):
                raise KeyError('subscript of non-array ' + t[1])
            c0 = self.counts['calls']
            i, ei = self.ev(t[2], fr)
            c1 = self.counts['calls']
            v, ev_ = self.ev(st[2], fr)
            if c1 > c0 and self.counts['calls'] > c1:
                self.call_order_open = True
            if isinstance(v, Arr) or isinstance(i, Arr):
                raise KeyError('array assigned')
            if conflict(ei, ev_):
                raise Undefined('order-assign')
            if i < 0 or i >= len(a.v):
                raise Undefined('subscript')
            if a.ro:
                raise Undefined('write-string')
            a.v[i] = v
            ei.merge(ev_)
            ei.write(('a', id(a), i))
            self.feat.add('arraywrite')
            self.counts['arrayops'] += 1
            return ei
        if k == 'pcall':
            _, ef = self.call(st[1], st[2], fr, False)
            return ef
        if k == 'syscall':
            sid = self.syscall_id(st[1], fr)
            vals, ef = self.eval_actuals(st[2], fr)
            if any(isinstance(v, Arr) for v in vals):
                raise KeyError('array passed to a system call')
            ef.io = True
            if sid == 0 and len(vals) == 1:
                raise Exit(vals[0])
            if sid == 1 and len(vals) == 2:
                self.do_write(vals[0], vals[1])
                return ef
            if sid == 2 and len(vals) == 1:
                self.do_read(vals[0])
                return ef
            raise KeyError('unsupported system call shape %r/%d' % (sid, len(vals)))
        raise KeyError('bad statement %r' % (st,))

    calls_active = None

    def run(self):
        """Returns the 32-bit exit value (0 when main returns or stop is reached)."""
        self.calls_active = []
        try:
            self.call('main', [], None, False)
            return 0
        except Exit as x:
            return x.v

    def nontrivial(self):
        """C01's rule: >= 1 user call below main or loop iteration or array access or I/O other than the final exit, and >= 30 steps."""
        c = self.counts
        return self.steps >= 30 and (c['calls'] > 1 or c['loops'] > 0 or c['arrayops'] > 0 or c['reads'] > 0 or c['writes'] > 0)
