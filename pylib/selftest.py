"""Self-test of the trusted base (the two reference models) against the repository's own expected outputs."""
import json
import os
import subprocess
import sys

from . import build, driver, toolchain

REPO = build.REPO


def refrun(image, inp=b'', scratch=None, extra=()):
    exe = build.exe('refrun')
    ip = os.path.join(scratch, 'selftest.in')
    open(ip, 'wb').write(inp)
    r = subprocess.run([exe, image, '--in', ip] + list(extra), stdout=subprocess.PIPE, stderr=subprocess.PIPE)
    return json.loads(r.stdout.decode())


def check_refisa(scratch, failures):
    """refisa must reproduce the expected outputs of the shipped assembly programs (tests/unit/asm_features.cpp)."""
    exp = {'exit0.S': (0, b''), 'exit255.S': (255, b''), 'hello.S': (None, b'hello\n'), 'hello_procedure.S': (None, b'hello\n')}
    n = 0
    for s, (ev, out) in exp.items():
        img = os.path.join(scratch, s + '.bin')
        ok, r = toolchain.assemble(os.path.join(REPO, 'tests/asm', s), img, scratch)
        if not ok:
            failures.append('selftest: hexasm failed on %s' % s)
            continue
        o = refrun(img, b'', scratch)
        n += 1
        if o['status'] != 'exited' or bytes.fromhex(o['out']) != out or (ev is not None and o['exit'] != ev):
            failures.append('selftest: refisa on %s gave %r' % (s, o))
    return n


def main():
    failures = []
    with driver.Scratch('selftest') as scratch:
        n = check_refisa(scratch, failures)
        try:
            from . import xselftest
            n += xselftest.run(scratch, failures)
        except ImportError:
            pass
    for f in failures:
        print('SELFTEST FAIL:', f)
    print('selftest: %d reference checks, %d failures' % (n, len(failures)))
    return 1 if failures else 0
