"""Parser and oracle for the listings printed by `hexasm --instrs` and `xcmp -S` (C17)."""
import re

from . import asmgen

LINE = re.compile(r'^(0x[0-9a-fA-F]+|0+) (.*?)\s*\((\d+) bytes\)$')
M32 = 0xFFFFFFFF
MNEMS = set(asmgen.OPC) - {'OPR', 'PFIX', 'NFIX'}


def parse(text):
    """[(offset, text, size)] for every directive line; the trailing '<n> bytes' line is dropped."""
    out = []
    for ln in text.splitlines():
        m = LINE.match(ln)
        if m:
            out.append((int(m.group(1), 16), m.group(2).strip(), int(m.group(3))))
    return out


def check(listing_text, image):
    """Listing vs image. Returns (ok, why, stats)."""
    ents = parse(listing_text)
    stats = dict(lines=len(ents), instr=0, data=0, label_operand=0, multibyte=0)
    if not ents:
        return False, 'listing has no directive lines', stats
    covered_to = 0          # end of the last instruction/data entry
    last_off = -1
    for (off, text, size) in ents:
        parts = text.split()
        if not parts:
            return False, 'empty directive text', stats
        head = parts[0]
        if head == 'PADDING':
            continue
        is_instr = head in MNEMS or head == 'OPR'
        is_data = head == 'DATA'
        if not (is_instr or is_data):
            # label / FUNC / PROC line: order only
            continue
        if off < last_off:
            return False, 'offsets decrease at "%s" (0x%x after 0x%x)' % (text, off, last_off), stats
        last_off = off
        if off < covered_to:
            return False, '"%s" at 0x%x overlaps the previous entry (which ends at 0x%x)' % (text, off, covered_to), stats
        if any(image[covered_to:off]):
            return False, 'non-zero bytes between 0x%x and 0x%x (before "%s")' % (covered_to, off, text), stats
        if off + size > len(image):
            return False, '"%s" at 0x%x (+%d) lies outside the %d-byte image' % (text, off, size, len(image)), stats
        if is_data:
            stats['data'] += 1
            if off & 3 or size != 4:
                return False, 'DATA line at 0x%x with size %d is not an aligned word' % (off, size), stats
            v = int.from_bytes(image[off:off + 4], 'little')
            if v != int(parts[1]) & M32:
                return False, 'DATA %s listed at 0x%x, image holds 0x%x' % (parts[1], off, v), stats
        else:
            stats['instr'] += 1
            d = asmgen.decode_at(image, off)
            if d is None:
                return False, 'image ends inside "%s" at 0x%x' % (text, off), stats
            ln, opc, opnd, npf = d
            if ln != size:
                return False, '"%s" listed with %d bytes at 0x%x, the encoding there is %d bytes' % (text, size, off, ln), stats
            if ln > 1:
                stats['multibyte'] += 1
            if head == 'OPR':
                if opc != 13 or opnd != asmgen.OPR.get(parts[1], -1):
                    return False, '"%s" at 0x%x decodes to opcode %X operand %d' % (text, off, opc, opnd), stats
            else:
                if opc != asmgen.OPC[head]:
                    return False, '"%s" at 0x%x decodes to opcode %X' % (text, off, opc), stats
                if len(parts) >= 3 and parts[-1].startswith('('):
                    stats['label_operand'] += 1
                    val = int(parts[-1].strip('()'))
                else:
                    val = int(parts[1])
                if opnd != val & M32:
                    return False, '"%s" at 0x%x carries operand 0x%x' % (text, off, opnd), stats
        covered_to = off + size
    if any(image[covered_to:]):
        return False, 'non-zero bytes after the last listed entry (0x%x)' % covered_to, stats
    return True, '', stats
