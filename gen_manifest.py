#!/usr/local/bin/python3-vt
"""Regenerates MANIFEST.json from the table below (kept in one place so that it stays valid)."""
import json, os, sys
HERE = os.path.dirname(os.path.abspath(__file__))

CHECKS = {}   # filled by entries below

def check(pid, technique, text, note, design):
    CHECKS[pid] = dict(
        property_id=pid,
        quick_cmd='./check %s --tier quick' % pid,
        thorough_cmd='./check %s --tier thorough' % pid,
        evidence_file='/verif/evidence/%s.json' % pid,
        replay_cmd_template='./check %s --replay {path}' % pid,
        engine='check',
        level_claimed=dict(category='exploration', text=text, design_ref=design),
        level_note=note,
        technique=technique)

check('C04', 'exhaustive enumeration + rapidcheck, round-trip through the ISA prefix decoder',
      'Every (mnemonic, literal) explored is assembled through the text interface and decoded with the ISA prefix rule; the thorough tier '
      'enumerates the complete value space (2^32 unsigned and 2^31 negative spellings), the quick tier enumerates seeded windows plus every '
      'encoding-length boundary and rapidcheck programs. Exploration, exhaustive in the value dimension in the thorough tier.',
      'Trusted: refisa::decodeAt (prefix rule transcribed from hexb.pdf). Mnemonic rotates with the value in the thorough tier '
      '(the encoder path does not depend on the mnemonic); the full 12x product is behind VERIF_C04_FULL=1.',
      'DESIGN.md 6 C04')

check('C02', 'rapidcheck lock-step differential against an independent ISA reference model (byte grid, sequences, toolchain images)',
      'hexsim::Processor is single-stepped (HEX_VERIF observer) next to refisa, a reference written from hexb.pdf: all 256 instruction bytes x '
      'generated states with effective addresses steered into range, generated instruction sequences through the real loader, and the shipped '
      'programs; registers, stored word, I/O and input position compared after every step, whole memory and simout files per case.',
      'Trusted: refisa (hexb.pdf transcription; selftest reproduces tests/asm outputs). Harness zeroes hexsim memory (C12 owns initialisation). '
      'Exploration: absence is not shown.',
      'DESIGN.md 6 C02')

check('C03', 'rapidcheck lock-step differential: Verilated RTL against the ISA reference model, one instruction per clock',
      'The Verilated hex design (--public-flat-rw) is clocked next to refisa: exhaustive 256-byte grid x generated reachable states with directly '
      'planted registers/memory, generated sequences and shipped programs from a proper reset. Registers, write port, written word, '
      'o_syscall_valid/o_syscall compared per clock, memory below 200000 words per case.',
      'Trusted: refisa; Verilator 5.006 two-state semantics. Domain restricted to the range both implementations provide and to oreg values reachable '
      'from reset (DESIGN 6 C03). System calls serviced by the harness.',
      'DESIGN.md 6 C03')
check('C16', 'rapidcheck differential between Verilated models of processor.sv, verilog/processor.v and synth/processor.v',
      'Three processor-only models share registers, fetched byte, read data and reset for all 256 bytes x generated states; outputs before the edge and '
      'registers after it must agree. Two full designs run sequences and shipped programs in lock-step from reset. Token streams of the two .v copies compared.',
      'Trusted: Verilator 5.006 two-state simulation (x-optimism differences invisible).',
      'DESIGN.md 6 C16')

check('C05', 'Hypothesis-generated assembly programs + complete boundary sweeps, decode-walk oracle over the source items, execution of tour programs on the ISA reference',
      'Generated programs (mutually dependent reference lengths, distances on every encoding-length boundary in both directions, growth chains of up to 140 '
      '(thorough: 1500) references that settle one link per layout pass, DATA alignment absorbing size changes) are assembled by the working-tree assembler (sanitizer build, file interface); the image is walked in source order and every reference '
      'must land on its label; unaligned absolute references must be rejected; header word and symbol table checked; tours executed on refisa.',
      'Trusted: asmgen.walk/decode_at (ISA prefix rule) and refisa. Termination is observed as a 10 s budget confirmed with a 60 s re-run. '
      'A rejection is accepted only for an absolute reference to a label that does not name a DATA word.',
      'DESIGN.md 6 C05')
check('C17', 'Hypothesis-generated programs through the real executables twice (listing, binary); listing-driven decode of the image',
      'Each listing line (hexasm --instrs / xcmp -S) is checked against the bytes of the image written by a second run of the same tool: offset, size, mnemonic, '
      'operand (value in parentheses for labels), DATA alignment/value, zero bytes between and after entries.',
      'PADDING line and trailing total ignored (pinned odd values). Label lines constrained by order only.',
      'DESIGN.md 6 C17')

check('C01', 'Hypothesis-generated X programs and inputs; differential against an independent reference interpreter with definedness checking; AST delta-debugging of failures',
      'Each generated (program, input) pair is interpreted by xref (language definition, decides domain membership) and compiled in-process by the working-tree '
      'xcmp (sanitizer build); the image runs on the range-checked ISA reference and on hexsim. Output bytes per stream, input consumed and 32-bit exit value must '
      'equal the reference; rejection, crash, sanitizer report, range fault or runaway are failures.',
      'Trusted: xref (selftest reproduces tests/x expectations), refisa. Evaluation-order and overflow choices resolved towards not raising alarms (DESIGN 4.2). '
      'Program size is bounded by tier parameters.',
      'DESIGN.md 6 C01')

check('C07', 'Hypothesis-generated expression trees, metamorphic relation between all-constant / mixed / all-run-time variants plus an independent evaluator',
      'For each tree, leaf assignment, constant mask and context, three programs (K all-constant, M mixed, R all-run-time) are compiled by the working-tree xcmp and '
      'run on hexsim and refisa; all three must exit with the value a Python evaluator gives (wrap-around + - neg; x < y as the sign of the wrapped difference, '
      '<= > >= through it as xcmp rewrites them - the exact comparison whenever the difference is representable). All 32-bit leaf values are generated.',
      'Run-time leaves are global variables assigned from literals in main. For comparisons whose operand difference wraps the run-time behaviour is the reference '
      '(the property\'s wording); KF-C07-01 is fixed and its witness is replayed on every run.',
      'DESIGN.md 6 C07')
check('C08', 'Hypothesis-generated X programs (normal, deep-recursion and array-filling modes) executed on the ISA reference under an on-line access monitor',
      'Every fetch/load/store of the compiled program is checked against regions derived from the binary itself: inside the 200000-word memory, no store to a fetched '
      'word (both orders), stores only in image data words or above the image, mem[1] never above its load-time value and equal to it whenever control returns from main.',
      'Trusted: refisa/refmon. Depth and array sizes are generator parameters chosen with a margin below the stack budget.',
      'DESIGN.md 6 C08')
check('C15', 'Hypothesis-generated X programs; hexsim -t output parsed under the guidance of the ISA reference trace; call events matched to the reference interpreter\'s call sequence',
      'Symbol table read back from the binary (names, order), call events LDAP..BR of the ISA trace must land on the table offset of the callee the reference interpreter '
      'calls next, every trace line must show the count, address, mnemonic, nibble and symbol+offset of the byte the ISA reference executes at that step, and offset-0 '
      'lines must spell the call sequence.',
      'When two operands whose order X leaves open both perform calls only the multiset of calls is compared. Free-form remainder of trace lines unchecked. '
      '15% of the cases are assembly tour programs with FUNC/PROC directives (the assembler\'s symbol path without xcmp); 8% have a procedure of several kilobytes.',
      'DESIGN.md 6 C15')

check('C06', 'Hypothesis-generated binaries and inputs; differential between the two real executables (hextb, hexsim) plus agreement with the reference prediction',
      'For each binary (xcmp from G-X, hexasm from tours) and input, hextb stdout minus its banner, exit status, consumed stdin (file offset) and simout files must equal '
      'hexsim\'s, and both must equal what xref / the tour construction predicts.',
      'hextb runs with a fixed Verilator seed (C13 owns seed dependence). Programs never read memory they did not write (xref definedness).',
      'DESIGN.md 6 C06')
check('C13', 'seed enumeration on the real hextb + Hypothesis-drawn planted adversarial power-on states in a harness linking hextb.cpp\'s own load()/run()',
      'Seeds 1..K on shipped programs and random seeds on generated binaries must give the reference output/status/consumption; planted states (pc on a planted SVC, '
      'store, branch; all-ones; random) must leave registers zero, the image intact and no I/O after the reset window, and give the reference result.',
      'Power-on space sampled through randReset seeds and planted states (each under three drawn seeds); reset window = first five rising edges. Binaries never read '
      'a word they have not written (DESIGN 6 C13); 15 % of the tours exceed 64 KiB.',
      'DESIGN.md 6 C13')

check('C11', 'Hypothesis-generated sources; self-differential under planted heap contents, preceding compilations and host configurations',
      'The same source is compiled/assembled in-process under heap fills 0x00/0xA5/0xFF (replaced operator new), after an unrelated compilation, and plain; and by the '
      'real executables under ASLR on/off x environment sizes x MALLOC_PERTURB_, plus a renamed copy in a deep directory under another locale / time zone / HOME with '
      'the binary written into a FIFO: binaries, listings, --tree and --memory-info must be byte-identical.',
      'Samples the dimensions the property names; an indeterminate read that neither fills nor perturbation reach is invisible.',
      'DESIGN.md 6 C11')
check('C12', 'Hypothesis-generated images incl. dirty-read programs; placement-new into pre-filled storage, host configurations, agreement with the zero-memory ISA reference',
      'hexsim::Processor is constructed in storage filled with 0x00/0xA5/0xFF/pattern and must give the same run as the ISA reference from zeroed memory; the real executable '
      'is run under ASLR on/off x environment sizes; --max-cycles cuts and -t (system-call sequence, status, input) are compared across all of them. Dirty-read '
      'programs read never-written words anywhere, the words right behind the image (symbol tables of varied shape) and exhausted or missing input streams.',
      'A cut run has no prescribed status, only a repeatable one.',
      'DESIGN.md 6 C12')
check('C14', 'model-based testing: Hypothesis-generated invocation histories over a scratch directory with a file-content model',
      'Operation sequences (write accepted/rejected sources, pre-create outputs, hexasm/xcmp with every argument shape and output names that cannot be created, xrun and '
      'hexsim with --max-cycles / -t before or after the file) run against the real executables; '
      'after each step status, stderr, the named output (equal to the in-process compile of the same text) and every other file in the directory are checked against the model.',
      'Acceptance of odd sources is decided by the library entry point in-process. xrun\'s a.bin is exempt.',
      'DESIGN.md 6 C14')

check('C09', 'coverage-guided fuzzing (libFuzzer, ASan+UBSan, token-level custom mutator, seeded and empty corpus) with an in-target oracle + Hypothesis-generated unusual programs',
      'Every input reaches xcmp::Driver::run in-process; the target itself asserts clean rejection (no binary, sane location) or acceptance (binary whose header fits), '
      'recompiles accepted inputs under two heap fills, and exercises every driver action; crashes are bucketed by sanitizer kind and innermost repository frame, '
      'minimised and reported per root cause. Structured half: grammar-generated programs with discipline-breaking mutations through every driver action and the real executable.',
      'Time-budgeted campaigns (counts measured). Uninitialised reads that never reach the output are visible only to the thorough tier\'s valgrind sample. '
      'Stack overflows count only if the production executable also dies.',
      'DESIGN.md 6 C09')
check('C10', 'coverage-guided fuzzing of the assembler entry points with an in-target oracle + Hypothesis-generated unusual assembly',
      'As C09 for hexasm: Lexer/Parser/CodeGen/emitBin and the tokeniser under libFuzzer with sanitizers; layout non-termination observed as a timeout confirmed by three '
      '60 s re-runs; unusual sources (undefined/duplicated/keyword-like labels, huge literals, truncated operands, stray tokens) through asmtool and the real executable.',
      'Termination is a budget observation.',
      'DESIGN.md 6 C10')

NOT_YET = {}

def main():
    props = [json.loads(l)['id'] for l in open(os.path.join(HERE, 'properties.jsonl'))]
    na = [dict(property_id=p, reason=NOT_YET.get(p, 'check not implemented yet in this round (planned in DESIGN.md section 6); not claimed until it is')) for p in props if p not in CHECKS]
    m = dict(
        version=1,
        setup_cmd='./check setup',
        hooks=dict(guard='HEX_VERIF',
                   enable='harnesses under /verif/src are compiled with -DHEX_VERIF -I/repo by pylib/build.py (content-hashed cache under /verif/build)',
                   baseline_off_cmd='cmake -G Ninja -S /repo -B /repo/_build -DCMAKE_BUILD_TYPE=RelWithDebInfo && cmake --build /repo/_build && ctest --test-dir /repo/_build -j8 --timeout 900',
                   source_commits=[l.strip() for l in open(os.path.join(HERE, 'hook_commits.txt'))] if os.path.exists(os.path.join(HERE, 'hook_commits.txt')) else [],
                   add_only=True),
        engines=[dict(name='check', path='/verif/check', serves_properties=sorted(CHECKS),
                      kind_free_text='python3-vt driver over Hypothesis (program/process level), rapidcheck (step level, in-process C++) and libFuzzer (byte level) harnesses built from /repo working tree')],
        checks=[CHECKS[p] for p in props if p in CHECKS],
        notes='See DESIGN.md. Known findings protocol: known_findings.txt. All checks rebuild from /repo working tree through a content-hashed cache.',
        not_applicable=na)
    with open(os.path.join(HERE, 'MANIFEST.json'), 'w') as f:
        json.dump(m, f, indent=1)
        f.write('\n')
    import jsonschema
    jsonschema.validate(m, json.load(open('/root/.vp/MANIFEST.schema.json')))
    print('MANIFEST.json: %d checks, %d not_applicable' % (len(m['checks']), len(na)))

if __name__ == '__main__':
    main()
