// C16: processor.v (verilog/ and synth/ copies) against processor.sv.
//   c16 grid   rapidcheck: (registers, memory read data, reset) x all 256 fetched bytes on three
//              processor-only models (processor.sv, verilog/processor.v, synth/processor.v)
//   c16 seq    rapidcheck: instruction sequences on two full designs (hex.sv + memory.sv with
//              processor.sv / with processor.v) clocked in lock-step from reset
//   c16 image FILE [IN] [MAXSTEPS]
//   c16 state pc areg breg oreg ddata rst byte      replay of a grid case
// Environment: RC_PARAMS, C16_OUT, C16_FAIL.
#include <cinttypes>
#include <cstdio>
#include <cstdlib>
#include <fstream>
#include <map>
#include <memory>
#include <set>
#include <sstream>
#include <string>
#include <vector>

#include <verilated.h>
#include "Vpsv.h"
#include "Vpsv_processor.h"
#include "Vpv.h"
#include "Vpv___024root.h"
#include "Vpsy.h"
#include "Vpsy___024root.h"
#include "Vhsv.h"
#include "Vhsv_hex.h"
#include "Vhsv_memory.h"
#include "Vhsv_processor.h"
#include "Vhv.h"
#include "Vhv_hex.h"
#include "Vhv_memory.h"

#include "isagen.hpp"
#include "refisa.hpp"
#include "vjson.hpp"

double sc_time_stamp() { return 0; }

static uint64_t g_cases = 0, g_transitions = 0, g_nontrivialSeq = 0, g_clocks = 0;
static std::map<std::string, uint64_t> g_classes;
static std::set<uint64_t> g_distinct;
static uint64_t g_distinctSteps = 0;
static std::vector<std::string> g_samples;
static const char *g_failFile = nullptr;
static void cls(const std::string &k) { g_classes[k]++; }
static uint64_t hashMix(uint64_t h, uint64_t v) { h ^= v + 0x9e3779b97f4a7c15ull + (h << 6) + (h >> 2); return h; }
static void recordFail(const std::string &json) { if (g_failFile) { FILE *f = fopen(g_failFile, "w"); if (f) { fprintf(f, "%s\n", json.c_str()); fclose(f); } } }
static std::string readFileStr(const std::string &p) { std::ifstream f(p, std::ios::binary); std::ostringstream ss; ss << f.rdbuf(); return ss.str(); }

struct Regs { uint32_t pc, a, b, o; bool operator==(const Regs &r) const { return pc == r.pc && a == r.a && b == r.b && o == r.o; } };
struct Outs {
  uint32_t f_addr, d_valid, d_we, d_addr, d_data, sys_valid, sys; uint32_t f_valid;
  bool operator==(const Outs &r) const { return f_addr == r.f_addr && d_valid == r.d_valid && d_we == r.d_we && d_addr == r.d_addr && d_data == r.d_data && sys_valid == r.sys_valid && sys == r.sys && f_valid == r.f_valid; }
};
template <class T> static Outs outsOf(T &m) {
  return Outs{(uint32_t)m.o_f_addr, (uint32_t)m.o_d_valid, (uint32_t)m.o_d_we, (uint32_t)m.o_d_addr, (uint32_t)m.o_d_data, (uint32_t)m.o_syscall_valid, (uint32_t)m.o_syscall, (uint32_t)m.o_f_valid};
}
static std::string fmt(const Regs &r) { char b[120]; snprintf(b, sizeof b, "pc=0x%x areg=0x%x breg=0x%x oreg=0x%x", r.pc, r.a, r.b, r.o); return b; }
static std::string fmt(const Outs &o) { char b[200]; snprintf(b, sizeof b, "f_addr=0x%x d_valid=%u d_we=%u d_addr=0x%x d_data=0x%x sys_valid=%u sys=%u", o.f_addr, o.d_valid, o.d_we, o.d_addr, o.d_data, o.sys_valid, o.sys); return b; }

struct GridCase { uint32_t pc, a, b, o, dd; bool rst; };

struct Models {
  VerilatedContext ctx;
  Vpsv sv; Vpv v; Vpsy sy;
  Models() : sv(&ctx, "SV"), v(&ctx, "V"), sy(&ctx, "SY") {
    init(sv); init(v); init(sy);
  }
  template <class T> void init(T &m) { m.i_rst = 0; m.i_clk = 0; m.i_f_data = 0; m.i_d_data = 0; m.eval(); }
  void setSv(const Regs &r) { sv.processor->pc_q = r.pc; sv.processor->areg_q = r.a; sv.processor->breg_q = r.b; sv.processor->oreg_q = r.o; }
  template <class T> void setFlat(T &m, const Regs &r) { m.rootp->processor__DOT__pc_q = r.pc; m.rootp->processor__DOT__areg_q = r.a; m.rootp->processor__DOT__breg_q = r.b; m.rootp->processor__DOT__oreg_q = r.o; }
  Regs getSv() { return Regs{(uint32_t)sv.processor->pc_q, (uint32_t)sv.processor->areg_q, (uint32_t)sv.processor->breg_q, (uint32_t)sv.processor->oreg_q}; }
  template <class T> Regs getFlat(T &m) { return Regs{(uint32_t)m.rootp->processor__DOT__pc_q, (uint32_t)m.rootp->processor__DOT__areg_q, (uint32_t)m.rootp->processor__DOT__breg_q, (uint32_t)m.rootp->processor__DOT__oreg_q}; }

  /// One transition on all three; returns a description of the first difference.
  std::string transition(const GridCase &c, unsigned inst) {
    Regs r{c.pc & 0x1FFFFF, c.a, c.b, c.o};
    setSv(r); setFlat(v, r); setFlat(sy, r);
    sv.i_f_data = inst; v.i_f_data = inst; sy.i_f_data = inst;
    sv.i_d_data = c.dd; v.i_d_data = c.dd; sy.i_d_data = c.dd;
    sv.i_rst = 0; v.i_rst = 0; sy.i_rst = 0;
    sv.i_clk = 0; v.i_clk = 0; sy.i_clk = 0;
    sv.eval(); v.eval(); sy.eval();
    Outs os = outsOf(sv), ov = outsOf(v), oy = outsOf(sy);
    if (!(os == ov)) return "outputs differ: processor.sv " + fmt(os) + " ; verilog/processor.v " + fmt(ov);
    if (!(os == oy)) return "outputs differ: processor.sv " + fmt(os) + " ; synth/processor.v " + fmt(oy);
    int rst = c.rst ? 1 : 0;
    sv.i_rst = rst; v.i_rst = rst; sy.i_rst = rst;
    sv.i_clk = 1; v.i_clk = 1; sy.i_clk = 1;
    sv.eval(); v.eval(); sy.eval();
    Regs ns = getSv(), nv = getFlat(v), ny = getFlat(sy);
    // leave reset low again (with the clock low) so that the next planted state is not cleared asynchronously
    sv.i_clk = 0; v.i_clk = 0; sy.i_clk = 0; sv.i_rst = 0; v.i_rst = 0; sy.i_rst = 0;
    sv.eval(); v.eval(); sy.eval();
    if (!(ns == nv)) return "next state differs: processor.sv " + fmt(ns) + " ; verilog/processor.v " + fmt(nv);
    if (!(ns == ny)) return "next state differs: processor.sv " + fmt(ns) + " ; synth/processor.v " + fmt(ny);
    g_transitions++;
    return "";
  }
};

static std::string toJson(const GridCase &c, int byte, const std::string &diff) {
  vjson::Obj o; o.str("kind", "grid"); o.num("pc", c.pc); o.num("areg", c.a); o.num("breg", c.b); o.num("oreg", c.o); o.num("ddata", c.dd);
  o.boolean("rst", c.rst); o.snum("byte", byte); o.str("diff", diff);
  return o.done();
}

// Full designs --------------------------------------------------------------

struct Full {
  VerilatedContext ctx;
  Vhsv s; Vhv v;
  std::vector<uint32_t> dirty;
  static VerilatedContext &prep(VerilatedContext &c) { static const char *av[] = {"c16", nullptr}; c.commandArgs(1, av); return c; }
  Full() : s(&prep(ctx), "S"), v(&ctx, "V") {
    for (uint32_t i = 0; i < (1u << 19); i++) { s.hex->u_memory->memory_q[i] = 0; v.hex->u_memory->memory_q[i] = 0; }
    s.i_rst = 0; s.i_clk = 0; s.eval(); v.i_rst = 0; v.i_clk = 0; v.eval();
  }
  uint32_t &ms(uint32_t w) { return s.hex->u_memory->memory_q[w]; }
  uint32_t &mv(uint32_t w) { return v.hex->u_memory->memory_q[w]; }
  Regs rs() { auto *p = s.hex->u_processor; return Regs{(uint32_t)p->pc_q, (uint32_t)p->areg_q, (uint32_t)p->breg_q, (uint32_t)p->oreg_q}; }
  Regs rv() { auto *h = v.hex; return Regs{(uint32_t)h->u_processor__DOT__pc_q, (uint32_t)h->u_processor__DOT__areg_q, (uint32_t)h->u_processor__DOT__breg_q, (uint32_t)h->u_processor__DOT__oreg_q}; }
  void both(int clk, int rst) { s.i_clk = clk; s.i_rst = rst; v.i_clk = clk; v.i_rst = rst; s.eval(); v.eval(); }

  std::string run(const std::string &file, const std::string &input, uint64_t maxSteps, uint64_t *stepsOut) {
    for (uint32_t w : dirty) { ms(w) = 0; mv(w) = 0; }
    dirty.clear();
    refisa::Machine *tmp = nullptr; (void)tmp;
    if (file.size() < 4) return "";
    uint32_t words = (uint8_t)file[0] | ((uint8_t)file[1] << 8) | ((uint8_t)file[2] << 16) | ((uint32_t)(uint8_t)file[3] << 24);
    if (words > refisa::MEM_WORDS || 4 + (uint64_t)words * 4 > file.size()) return "";
    for (uint32_t i = 0; i < words; i++) {
      const unsigned char *p = (const unsigned char *)file.data() + 4 + 4 * (size_t)i;
      uint32_t w = p[0] | (p[1] << 8) | (p[2] << 16) | ((uint32_t)p[3] << 24);
      ms(i) = w; mv(i) = w; dirty.push_back(i);
    }
    both(0, 0); both(1, 1); both(0, 1); both(1, 1); both(0, 0);
    if (!(rs() == rv())) return "registers differ after reset";
    size_t inPos = 0;
    uint64_t n = 0;
    while (n < maxSteps) {
      both(0, 0);
      // outputs before the edge
      bool svs = s.o_syscall_valid, svv = v.o_syscall_valid;
      if (svs != svv || (svs && s.o_syscall != v.o_syscall)) { char b[160]; snprintf(b, sizeof b, "syscall outputs differ at clock %" PRIu64 ": .sv valid=%d sys=%u, .v valid=%d sys=%u", n, (int)svs, (unsigned)s.o_syscall, (int)svv, (unsigned)v.o_syscall); return b; }
      bool wes = s.hex->req_d_valid && s.hex->req_d_we, wev = v.hex->req_d_valid && v.hex->req_d_we;
      uint32_t was = s.hex->req_d_addr, wav = v.hex->req_d_addr;
      if (wes != wev || (wes && (was != wav || s.hex->req_d_data != v.hex->req_d_data))) { char b[160]; snprintf(b, sizeof b, "write ports differ at clock %" PRIu64, n); return b; }
      if (wes) dirty.push_back(was);
      uint32_t sysno = s.o_syscall;
      uint32_t pcBefore = rs().pc;
      (void)pcBefore;
      both(1, 0);
      g_clocks++;
      n++;
      if (svs) {
        // service the call identically for both designs
        uint32_t sp = ms(1);
        if (sysno == 0) break;
        if (sysno == 2 && sp + 1 < (1u << 19)) {
          uint32_t val = inPos < input.size() ? (uint8_t)input[inPos++] : 0xFF;
          ms(sp + 1) = val; mv(sp + 1) = val; dirty.push_back(sp + 1);
        }
        cls("svc:" + std::to_string(sysno));
      }
      Regs a = rs(), b2 = rv();
      if (!(a == b2)) { return "registers differ at clock " + std::to_string(n) + ": .sv " + fmt(a) + " ; .v " + fmt(b2); }
      if (a.pc >= refisa::MEM_BYTES) break;   // left the memory both provide
    }
    *stepsOut = n;
    for (uint32_t i = 0; i < refisa::MEM_WORDS; i++) if (ms(i) != mv(i)) { char b[160]; snprintf(b, sizeof b, "memory differs at word %u: .sv 0x%x .v 0x%x", i, (unsigned)ms(i), (unsigned)mv(i)); return b; }
    return "";
  }
};

static void writeStats(bool ok) {
  const char *out = getenv("C16_OUT");
  if (!out) return;
  FILE *f = fopen(out, "w");
  if (!f) return;
  vjson::Obj o;
  o.num("cases", g_cases); o.num("transitions", g_transitions); o.num("clocks", g_clocks); o.num("nontrivial_sequences", g_nontrivialSeq); o.num("distinct", g_distinctSteps);
  vjson::Obj c; for (auto &kv : g_classes) c.num(kv.first, kv.second); o.raw("classes", c.done());
  vjson::Arr s; for (auto &x : g_samples) s.raw(x); o.raw("samples", s.done());
  o.boolean("ok", ok);
  fprintf(f, "%s\n", o.done().c_str());
  fclose(f);
}

int main(int argc, char **argv) {
  if (argc < 2) { fprintf(stderr, "usage: c16 grid|seq|image|state\n"); return 2; }
  std::string mode = argv[1];
  g_failFile = getenv("C16_FAIL");
  bool ok = true;
  if (mode == "grid" || mode == "state") {
    Models m;
    auto sweep = [&](const GridCase &c, int only, int *failByte) -> std::string {
      bool newState = g_distinct.insert(hashMix(hashMix(hashMix(hashMix(c.pc, c.a), c.b), c.o), c.dd * 2 + c.rst)).second;
      for (int inst = 0; inst < 256; inst++) {
        if (only >= 0 && inst != only) continue;
        std::string d = m.transition(c, (unsigned)inst);
        if (!d.empty()) { *failByte = inst; return d; }
        if (newState) g_distinctSteps++;
        cls(std::string("opcode:") + refisa::opcodeName(inst >> 4));
        if (c.rst) cls("with-reset");
        if ((c.o & 15) != 0) cls("oreg-low-nibble-nonzero");
      }
      return "";
    };
    if (mode == "grid") {
      ok = rc::check("C16 grid: processor.v == processor.sv for every fetched byte", [&]() {
        GridCase c;
        c.pc = *rc::gen::resize(100, rc::gen::oneOf(rc::gen::inRange<uint32_t>(0, 1u << 21), rc::gen::element<uint32_t>(0u, 1u, 0x1FFFFFu, 0x1FFFFEu, 799999u, 800000u)));
        c.a = *isagen::genReg(); c.b = *isagen::genReg(); c.o = *isagen::genOreg(false); c.dd = *isagen::genReg();
        c.rst = *rc::gen::resize(100, rc::gen::weightedElement<bool>({{9, false}, {1, true}}));
        g_cases++;
        if (g_samples.size() < 4 && g_cases % 40 == 5) g_samples.push_back(toJson(c, -1, ""));
        int fb = -1;
        std::string d = sweep(c, -1, &fb);
        if (!d.empty()) recordFail(toJson(c, fb, d));
        RC_ASSERT(d.empty());
      });
    } else {
      if (argc < 9) return 2;
      GridCase c{(uint32_t)strtoull(argv[2], 0, 10), (uint32_t)strtoull(argv[3], 0, 10), (uint32_t)strtoull(argv[4], 0, 10), (uint32_t)strtoull(argv[5], 0, 10), (uint32_t)strtoull(argv[6], 0, 10), atoi(argv[7]) != 0};
      int fb = -1; g_cases++;
      std::string d = sweep(c, atoi(argv[8]), &fb);
      if (!d.empty()) { recordFail(toJson(c, fb, d)); printf("FAIL %s\n", d.c_str()); ok = false; }
    }
    m.sv.final(); m.v.final(); m.sy.final();
  } else if (mode == "seq") {
    Full f;
    ok = rc::check("C16 sequences: hex with processor.v == hex with processor.sv, clock by clock", [&]() {
      auto q = *isagen::genSequence();
      g_cases++;
      auto bytes = isagen::assembleSequence(q);
      std::string file; uint32_t words = bytes.size() / 4;
      for (int i = 0; i < 4; i++) file.push_back((char)((words >> (8 * i)) & 0xFF));
      file.append(bytes.begin(), bytes.end());
      if (g_samples.size() < 4 && g_cases % 50 == 7) g_samples.push_back(isagen::toJson(q));
      uint64_t steps = 0;
      std::string d = f.run(file, q.input, 400, &steps);
      if (steps >= 8) { g_nontrivialSeq++; uint64_t h = 0; for (auto c : bytes) h = hashMix(h, c); if (g_distinct.insert(h).second) g_distinctSteps++; }
      if (!d.empty()) { vjson::Obj o; o.str("kind", "image"); o.hex("file", file); o.hex("input", q.input); o.str("diff", d); o.num("max_steps", 400); recordFail(o.done()); }
      RC_ASSERT(d.empty());
    });
    f.s.final(); f.v.final();
  } else if (mode == "image" && argc >= 3) {
    Full f;
    std::string file = readFileStr(argv[2]);
    std::string input = argc >= 4 ? readFileStr(argv[3]) : "";
    uint64_t maxSteps = argc >= 5 ? strtoull(argv[4], nullptr, 10) : 50000000ull;
    uint64_t steps = 0; g_cases++;
    std::string d = f.run(file, input, maxSteps, &steps);
    if (steps >= 8) { g_nontrivialSeq++; uint64_t h = 0; for (auto c : file) h = hashMix(h, (unsigned char)c); if (g_distinct.insert(h).second) g_distinctSteps++; }
    if (!d.empty()) { vjson::Obj o; o.str("kind", "image"); o.hex("file", file.size() < 20000 ? file : std::string()); o.str("path", argv[2]); o.hex("input", input); o.str("diff", d); recordFail(o.done()); ok = false; }
    f.s.final(); f.v.final();
  } else { fprintf(stderr, "bad mode\n"); return 2; }
  writeStats(ok);
  return ok ? 0 : 1;
}
