// C13: hextb.cpp's own load() and run() linked against a --public-flat-rw model of the same design,
// started from a *planted* power-on state.
//   c13planted IMAGE INPUT pc areg breg oreg [addr=value ...]
// Phase 1 runs only the reset window (run(..., maxCycles = 4): five rising edges, all inside reset) and
// inspects registers, image and I/O; phase 2 is a complete run on a second model planted the same way.
// Prints one JSON object.
#include <cstdio>
#include <cstdlib>
#include <cstring>
#include <fstream>
#include <iostream>
#include <sstream>
#include <string>
#include <vector>

#define main hextb_main
#include "hextb.cpp"
#undef main

#include "vjson.hpp"

static std::string slurp(const char *p) { std::ifstream f(p, std::ios::binary); std::ostringstream ss; ss << f.rdbuf(); return ss.str(); }

struct Plant { uint32_t pc, a, b, o; std::vector<std::pair<uint32_t, uint32_t>> words; };

static void plant(const std::unique_ptr<Vhex_pkg> &top, const Plant &p) {
  auto *pr = top->hex->u_processor;
  pr->pc_q = p.pc & 0x1FFFFF; pr->areg_q = p.a; pr->breg_q = p.b; pr->oreg_q = p.o;
  for (auto &w : p.words) if (w.first < (1u << 19)) top->hex->u_memory->memory_q[w.first] = w.second;
}

int main(int argc, char **argv) {
  if (argc < 7) { fprintf(stderr, "usage: c13planted IMAGE INPUT pc areg breg oreg [addr=value ...]\n"); return 2; }
  const char *image = argv[1];
  std::string input = slurp(argv[2]);
  Plant p;
  p.pc = strtoul(argv[3], 0, 0); p.a = strtoul(argv[4], 0, 0); p.b = strtoul(argv[5], 0, 0); p.o = strtoul(argv[6], 0, 0);
  for (int i = 7; i < argc; i++) {
    char *eq = strchr(argv[i], '=');
    if (eq) p.words.push_back({(uint32_t)strtoul(argv[i], 0, 0), (uint32_t)strtoul(eq + 1, 0, 0)});
  }
  std::string file = slurp(image);
  uint32_t words = file.size() >= 4 ? ((uint8_t)file[0] | ((uint8_t)file[1] << 8) | ((uint8_t)file[2] << 16) | ((uint32_t)(uint8_t)file[3] << 24)) : 0;
  // Everything that is not planted explicitly (including state elements this harness does not know about) takes
  // the Verilator-randomised value of this seed; the driver repeats a planted case under several seeds.
  static char seedArg[64];
  snprintf(seedArg, sizeof seedArg, "+verilator+seed+%s", getenv("C13_SEED") ? getenv("C13_SEED") : "7");
  const char *vargv[] = {"c13planted", seedArg, nullptr};
  vjson::Obj o;
  std::streambuf *oldOut = std::cout.rdbuf(), *oldIn = std::cin.rdbuf();
  // ---- phase 1: the reset window only
  {
    std::istringstream in(input);
    std::ostringstream out;
    std::cin.rdbuf(in.rdbuf()); std::cout.rdbuf(out.rdbuf());
    const std::unique_ptr<VerilatedContext> ctx{new VerilatedContext};
    ctx->randReset(2); ctx->commandArgs(2, vargv);
    const std::unique_ptr<Vhex_pkg> top{new Vhex_pkg{ctx.get(), "TOP"}};
    plant(top, p);
    load(image, top);
    std::string banner = out.str();
    int rc = 0; std::string err;
    try { rc = run(ctx, top, false, 4); } catch (const std::exception &e) { err = e.what(); }
    std::cin.rdbuf(oldIn); std::cout.rdbuf(oldOut);
    auto *pr = top->hex->u_processor;
    o.num("p1_pc", (uint32_t)pr->pc_q); o.num("p1_areg", (uint32_t)pr->areg_q); o.num("p1_breg", (uint32_t)pr->breg_q); o.num("p1_oreg", (uint32_t)pr->oreg_q);
    long firstDiff = -1;
    for (uint32_t i = 0; i < words && 4 + 4 * (size_t)i + 3 < file.size(); i++) {
      const unsigned char *q = (const unsigned char *)file.data() + 4 + 4 * (size_t)i;
      uint32_t w = q[0] | (q[1] << 8) | (q[2] << 16) | ((uint32_t)q[3] << 24);
      if ((uint32_t)top->hex->u_memory->memory_q[i] != w) { firstDiff = i; break; }
    }
    o.snum("p1_image_first_diff", firstDiff);
    o.hex("p1_out", out.str().substr(banner.size()));
    o.num("p1_consumed", in.eof() ? input.size() : (size_t)in.tellg());
    o.snum("p1_rc", rc);
    o.str("p1_error", err);
  }
  // ---- phase 2: the complete run
  {
    std::istringstream in(input);
    std::ostringstream out;
    std::cin.rdbuf(in.rdbuf()); std::cout.rdbuf(out.rdbuf());
    const std::unique_ptr<VerilatedContext> ctx{new VerilatedContext};
    ctx->randReset(2); ctx->commandArgs(2, vargv);
    const std::unique_ptr<Vhex_pkg> top{new Vhex_pkg{ctx.get(), "TOP"}};
    plant(top, p);
    load(image, top);
    std::string banner = out.str();
    int rc = 0; std::string err;
    try { rc = run(ctx, top, false, 3000000); } catch (const std::exception &e) { err = e.what(); }
    std::cin.rdbuf(oldIn); std::cout.rdbuf(oldOut);
    o.hex("p2_out", out.str().substr(banner.size()));
    o.num("p2_consumed", (in.eof() || in.fail()) ? input.size() : (size_t)in.tellg());
    o.snum("p2_rc", rc);
    o.str("p2_error", err);
  }
  printf("%s\n", o.done().c_str());
  return 0;
}
