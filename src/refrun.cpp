// Command-line front end of the reference ISA model.
//   refrun IMAGE [--in FILE] [--simin N FILE] [--max-steps N] [--monitor]
//          [--trace FILE] [--zero-mem]
// Prints one JSON object on stdout.
#include <cstdio>
#include <cstdlib>
#include <fstream>
#include <iostream>
#include <sstream>
#include <string>
#include <vector>

#include "refisa.hpp"
#include "refmon.hpp"
#include "vjson.hpp"

static std::string slurp(const char *path, bool *ok = nullptr) {
  std::ifstream f(path, std::ios::binary);
  if (ok) *ok = (bool)f;
  std::ostringstream ss;
  ss << f.rdbuf();
  return ss.str();
}

int main(int argc, char **argv) {
  const char *image = nullptr, *inFile = nullptr, *traceFile = nullptr;
  uint64_t maxSteps = 10000000;
  bool monitor = false;
  refisa::Machine m;
  for (int i = 1; i < argc; i++) {
    std::string a = argv[i];
    if (a == "--in" && i + 1 < argc) inFile = argv[++i];
    else if (a == "--simin" && i + 2 < argc) { int n = atoi(argv[++i]) & 7; m.io.fileIn[n] = slurp(argv[++i]); }
    else if (a == "--max-steps" && i + 1 < argc) maxSteps = strtoull(argv[++i], nullptr, 10);
    else if (a == "--monitor") monitor = true;
    else if (a == "--trace" && i + 1 < argc) traceFile = argv[++i];
    else if (!image) image = argv[i];
    else { fprintf(stderr, "refrun: bad argument %s\n", argv[i]); return 2; }
  }
  if (!image) { fprintf(stderr, "usage: refrun IMAGE ...\n"); return 2; }
  bool ok;
  std::string file = slurp(image, &ok);
  if (!ok) { fprintf(stderr, "refrun: cannot read %s\n", image); return 2; }
  if (inFile) m.io.in = slurp(inFile);
  long words = m.loadImage(file);
  if (words < 0) { printf("{\"status\":\"bad_image\"}\n"); return 0; }
  refmon::Monitor mon;
  if (monitor) mon.begin(m, (uint32_t)words);
  FILE *tf = traceFile ? fopen(traceFile, "w") : nullptr;
  bool limit = false;
  refisa::StepInfo si;
  while (true) {
    if (m.steps >= maxSteps) { limit = true; break; }
    uint32_t aregBefore = m.areg;
    bool running = m.step(&si);
    bool executed = m.status == refisa::Status::RUNNING || m.status == refisa::Status::EXITED;
    if (executed) {
      if (monitor) mon.afterStep(m, si);
      if (tf) {
        if (si.isSvc) {
          uint32_t sp = m.mem[1];
          if (si.svcNum == 0) fprintf(tf, "%u %u svc 0 %u\n", si.fetchAddr, si.inst, m.exitValue);
          else if (si.svcNum == 1) fprintf(tf, "%u %u svc 1 %u %u\n", si.fetchAddr, si.inst, m.mem[sp + 2], m.mem[sp + 3]);
          else fprintf(tf, "%u %u svc 2 %u %u\n", si.fetchAddr, si.inst, si.storeData, si.storeAddr);
        } else {
          fprintf(tf, "%u %u\n", si.fetchAddr, si.inst);
        }
      }
    }
    (void)aregBefore;
    if (!running) break;
  }
  if (tf) fclose(tf);
  vjson::Obj o;
  o.str("status", limit ? "step_limit" : refisa::statusName(m.status));
  o.num("exit", m.exitValue);
  o.num("steps", m.steps);
  o.num("image_words", (uint64_t)words);
  o.hex("out", m.io.out);
  o.num("consumed", m.io.inPos);
  o.num("reads", m.io.reads);
  o.num("eof_reads", m.io.eofReads);
  o.num("writes", m.io.writes);
  o.num("pc", m.pc); o.num("areg", m.areg); o.num("breg", m.breg); o.num("oreg", m.oreg);
  {
    vjson::Obj fo, fc;
    for (int i = 0; i < 8; i++) {
      if (m.io.usedOut[i]) fo.hex(std::to_string(i), m.io.fileOut[i]);
      if (m.io.usedIn[i]) fc.num(std::to_string(i), m.io.fileInPos[i]);
    }
    o.raw("fileout", fo.done());
    o.raw("filein_consumed", fc.done());
  }
  if (monitor) o.raw("monitor", mon.report());
  printf("%s\n", o.done().c_str());
  return 0;
}
