// Sanitizer aborts bypass shrinking and atexit: remember the case being run and
// write it out from the signal handler, so that the driver still gets a replay.
#ifndef VERIF_CRASHDUMP_HPP
#define VERIF_CRASHDUMP_HPP
#include <csignal>
#include <cstring>
#include <fcntl.h>
#include <string>
#include <unistd.h>

namespace crashdump {

static char g_path[512];
static const char *g_data = nullptr;
static size_t g_size = 0;

inline void handler(int sig) {
  if (g_path[0] && g_data) {
    int fd = open(g_path, O_WRONLY | O_CREAT | O_TRUNC, 0644);
    if (fd >= 0) { ssize_t r = write(fd, g_data, g_size); (void)r; close(fd); }
  }
  signal(sig, SIG_DFL);
  raise(sig);
}

inline void install(const char *path) {
  if (!path) return;
  strncpy(g_path, path, sizeof g_path - 1);
  signal(SIGABRT, handler);
  signal(SIGSEGV, handler);
  signal(SIGBUS, handler);
  signal(SIGFPE, handler);
  signal(SIGILL, handler);
}

/// The string must stay alive while the case runs.
inline void current(const std::string &s) { g_data = s.data(); g_size = s.size(); }

} // namespace crashdump
#endif
