// C03: the Verilated design (hex.sv + processor.sv + memory.sv, --public-flat-rw)
// in lock-step with the reference ISA model, one instruction per clock.
//   c03 grid | seq | image FILE [IN] [MAXSTEPS] | state ... (as c02)
// Environment: RC_PARAMS, C03_OUT, C03_FAIL.
#include <cinttypes>
#include <cstdio>
#include <cstdlib>
#include <cstring>
#include <fstream>
#include <map>
#include <memory>
#include <set>
#include <sstream>
#include <string>
#include <vector>

#include <verilated.h>
#include "Vrtl.h"
#include "Vrtl_hex.h"
#include "Vrtl_memory.h"
#include "Vrtl_processor.h"

#include "isagen.hpp"
#include "refisa.hpp"
#include "vjson.hpp"

double sc_time_stamp() { return 0; }

using isagen::State;
using refisa::MEM_BYTES;
using refisa::MEM_WORDS;

static uint64_t g_cases = 0, g_steps = 0, g_defined = 0, g_undefined = 0, g_outOfDomain = 0, g_nontrivialSeq = 0;
static std::map<std::string, uint64_t> g_classes;
static std::set<uint64_t> g_distinct;
static uint64_t g_distinctSteps = 0;
static std::vector<std::string> g_samples;
static const char *g_failFile = nullptr;
static std::string g_simin[8];

static void cls(const std::string &k) { g_classes[k]++; }
static uint64_t hashMix(uint64_t h, uint64_t v) { h ^= v + 0x9e3779b97f4a7c15ull + (h << 6) + (h >> 2); return h; }
static void recordFail(const std::string &json) {
  if (g_failFile) { FILE *f = fopen(g_failFile, "w"); if (f) { fprintf(f, "%s\n", json.c_str()); fclose(f); } }
}
static std::string readFileStr(const std::string &p) { std::ifstream f(p, std::ios::binary); std::ostringstream ss; ss << f.rdbuf(); return ss.str(); }

struct Rtl {
  VerilatedContext ctx;
  std::unique_ptr<Vrtl> top;
  refisa::Machine ref;
  std::vector<uint32_t> dirty;
  bool stopped = false;

  Rtl(int argc, char **argv) {
    ctx.commandArgs(argc, argv);
    top.reset(new Vrtl(&ctx, "TOP"));
    auto &mem = top->hex->u_memory->memory_q;
    for (uint32_t i = 0; i < (1u << 19); i++) mem[i] = 0;   // randReset would leave random words where the ISA model has zeros
    top->i_rst = 0; top->i_clk = 0; top->eval();
  }
  Vrtl_processor *proc() { return top->hex->u_processor; }
  uint32_t &mem(uint32_t w) { return top->hex->u_memory->memory_q[w]; }

  void beginCase(const std::string &input) {
    for (uint32_t w : dirty) { mem(w) = 0; ref.mem[w] = 0; }
    dirty.clear();
    ref.reset();
    ref.io = refisa::IO();
    ref.io.in = input;
    for (int i = 0; i < 8; i++) ref.io.fileIn[i] = g_simin[i];
    stopped = false;
  }
  void setWord(uint32_t w, uint32_t v) { mem(w) = v; ref.mem[w] = v; dirty.push_back(w); }
  void setRegs(uint32_t pc, uint32_t a, uint32_t b, uint32_t o) {
    proc()->pc_q = pc; proc()->areg_q = a; proc()->breg_q = b; proc()->oreg_q = o;
    ref.pc = pc; ref.areg = a; ref.breg = b; ref.oreg = o;
    ref.status = refisa::Status::RUNNING;
  }
  /// Proper reset: baseline evaluation with i_rst low, then i_rst high over two rising edges.
  void reset() {
    top->i_rst = 0; top->i_clk = 0; top->eval();
    top->i_rst = 1; top->i_clk = 1; top->eval();
    top->i_clk = 0; top->eval();
    top->i_clk = 1; top->eval();
    top->i_clk = 0; top->i_rst = 0; top->eval();
  }

  /// One clock against one ISA step.
  std::string step(bool &defined, refisa::StepInfo &si) {
    defined = false;
    uint32_t pc0 = ref.pc, a0 = ref.areg, o0 = ref.oreg;
    // the reachable-state invariant the domain restriction relies on, asserted on both sides
    if ((o0 & 15) != 0) return "";   // not a state reachable from reset: outside C03's domain (never produced by the generators)
    uint8_t inst = pc0 < MEM_BYTES ? ref.peekByte(pc0) : 0;
    bool refSvc = pc0 < MEM_BYTES && ref.isSvcByte(inst);
    ref.step(&si);
    auto st = ref.status;
    bool executed = (st == refisa::Status::RUNNING || st == refisa::Status::EXITED);
    if (!executed) {
      if (st == refisa::Status::UNDEF_OPCODE || st == refisa::Status::UNDEF_OPR || st == refisa::Status::UNDEF_SVC) { g_undefined++; cls("undefined"); }
      else { g_outOfDomain++; cls(std::string("out-of-domain:") + refisa::statusName(st)); }
      stopped = true;
      return "";
    }
    // Range both implementations provide: byte addresses (pc, LDAP results, branch targets) below 800000.
    unsigned opc = inst >> 4;
    if (ref.pc >= MEM_BYTES || (opc == refisa::LDAP && ref.areg >= MEM_BYTES)) {
      g_outOfDomain++; cls("out-of-domain:byte-address>=800000");
      if (si.store) ref.mem[si.storeAddr] = si.storeOld;   // the RTL did not take this step: undo it in the model
      stopped = true;
      return "";
    }
    defined = true;
    g_steps++;
    char b[500];
    // before the edge: combinational outputs
    top->i_clk = 0; top->eval();
    bool isStore = si.store && !si.isSvc;
    if ((bool)top->o_syscall_valid != refSvc) { snprintf(b, sizeof b, "o_syscall_valid=%d but instruction 0x%02x at pc=%u %s SVC by ISA decode", (int)top->o_syscall_valid, inst, pc0, refSvc ? "is" : "is not"); return b; }
    if (refSvc && (uint32_t)top->o_syscall != (a0 & 3)) { snprintf(b, sizeof b, "o_syscall=%u but areg=%u at SVC pc=%u", (unsigned)top->o_syscall, a0, pc0); return b; }
    {
      auto *h = top->hex;
      bool we = h->req_d_valid && h->req_d_we;
      if (we != isStore) { snprintf(b, sizeof b, "write strobe=%d but ISA %s a store for byte 0x%02x at pc=%u", (int)we, isStore ? "performs" : "does not perform", inst, pc0); return b; }
      if (isStore && ((uint32_t)h->req_d_addr != si.storeAddr || (uint32_t)h->req_d_data != si.storeData)) {
        snprintf(b, sizeof b, "store port addr=%u data=0x%x, ISA stores 0x%x to word %u (byte 0x%02x at pc=%u)", (unsigned)h->req_d_addr, (unsigned)h->req_d_data, si.storeData, si.storeAddr, inst, pc0); return b;
      }
    }
    top->i_clk = 1; top->eval();
    top->i_clk = 0; top->eval();
    if (si.isSvc && si.store) mem(si.storeAddr) = si.storeData;   // the harness services READ for both sides
    if (si.store) dirty.push_back(si.storeAddr);
    auto *p = proc();
    if ((uint32_t)p->pc_q != ref.pc || (uint32_t)p->areg_q != ref.areg || (uint32_t)p->breg_q != ref.breg || (uint32_t)p->oreg_q != ref.oreg) {
      snprintf(b, sizeof b, "registers differ after byte 0x%02x at pc=%u (oreg=0x%x): RTL pc=%u areg=0x%x breg=0x%x oreg=0x%x, ISA pc=%u areg=0x%x breg=0x%x oreg=0x%x",
               inst, pc0, o0, (unsigned)p->pc_q, (unsigned)p->areg_q, (unsigned)p->breg_q, (unsigned)p->oreg_q, ref.pc, ref.areg, ref.breg, ref.oreg);
      return b;
    }
    if (si.store && mem(si.storeAddr) != ref.mem[si.storeAddr]) {
      snprintf(b, sizeof b, "memory word %u holds 0x%x after the clock, ISA 0x%x (byte 0x%02x at pc=%u)", si.storeAddr, (unsigned)mem(si.storeAddr), ref.mem[si.storeAddr], inst, pc0);
      return b;
    }
    if (st == refisa::Status::EXITED) stopped = true;
    return "";
  }

  std::string compareMemory() {
    for (uint32_t i = 0; i < MEM_WORDS; i++)
      if (mem(i) != ref.mem[i]) { char b[200]; snprintf(b, sizeof b, "memory differs at word %u: RTL=0x%x ISA=0x%x", i, (unsigned)mem(i), ref.mem[i]); return b; }
    return "";
  }
};

static Rtl *g_rtl = nullptr;

static void classifyStep(const refisa::StepInfo &si, uint32_t aregBefore, bool prefixed) {
  unsigned opc = si.inst >> 4;
  std::string k = refisa::opcodeName(opc);
  if (opc == refisa::OPR) k += std::string(":") + (si.operand == 0 ? "BRB" : si.operand == 1 ? "ADD" : si.operand == 2 ? "SUB" : "SVC");
  cls("op:" + k);
  if (prefixed) cls("prefixed:" + k);
  if (opc >= refisa::BR && opc <= refisa::BRN) cls(std::string(si.branchTaken ? "taken:" : "not-taken:") + k);
  if (opc == refisa::BRN && aregBefore == 0x80000000u) cls("BRN:areg=INT_MIN");
  if (si.isSvc) cls("svc:" + std::to_string(si.svcNum));
}

static std::string runGridState(const State &s, int onlyByte, bool cmpEach, int *failByte) {
  Rtl &r = *g_rtl;
  r.beginCase(s.input);
  bool newState = g_distinct.insert(hashMix(hashMix(hashMix(hashMix(hashMix(s.pc, s.areg), s.breg), s.oreg), s.target), s.targetVal ^ ((uint64_t)s.sp << 20))).second;
  for (int inst = 0; inst < 256; inst++) {
    if (onlyByte >= 0 && inst != onlyByte) continue;
    auto pl = isagen::plant(s, (uint8_t)inst, true);
    for (auto &w : pl.words) if (w.first < MEM_WORDS) r.setWord(w.first, w.second);
    r.setRegs(pl.pc, pl.areg, pl.breg, pl.oreg);
    bool defined; refisa::StepInfo si;
    std::string d = r.step(defined, si);
    if (!d.empty()) { *failByte = inst; return d; }
    if (defined) {
      g_defined++;
      classifyStep(si, pl.areg, pl.oreg != 0);
      if (newState) g_distinctSteps++;
    }
    if (cmpEach) { d = r.compareMemory(); if (!d.empty()) { *failByte = inst; return d; } }
  }
  std::string d = r.compareMemory();
  if (!d.empty()) { *failByte = -1; return d + " (after the 256-byte sweep of this state)"; }
  return "";
}

static std::string runImage(const std::string &file, const std::string &input, uint64_t maxSteps, uint64_t *stepsOut) {
  Rtl &r = *g_rtl;
  r.beginCase(input);
  long words = r.ref.loadImage(file);
  if (words < 0) return "";
  for (long w = 0; w < words; w++) { r.mem((uint32_t)w) = r.ref.mem[w]; r.dirty.push_back((uint32_t)w); }
  // garbage in the registers, then a proper reset must bring the processor to its start state
  r.proc()->areg_q = 0x12345678; r.proc()->breg_q = 0x9abcdef0; r.proc()->pc_q = 0; r.proc()->oreg_q = 0;
  r.reset();
  auto *p = r.proc();
  if (p->pc_q != 0 || p->areg_q != 0 || p->breg_q != 0 || p->oreg_q != 0) return "registers not zero after reset";
  std::string d = r.compareMemory();
  if (!d.empty()) return "after reset: " + d;
  uint64_t n = 0;
  bool prevPrefix = false;
  while (!r.stopped && n < maxSteps) {
    bool defined; refisa::StepInfo si;
    uint32_t before = r.ref.areg;
    d = r.step(defined, si);
    if (!d.empty()) { char b[64]; snprintf(b, sizeof b, " (clock %" PRIu64 ")", n); return d + b; }
    if (!defined) break;
    classifyStep(si, before, prevPrefix);
    prevPrefix = (si.inst >> 4) >= refisa::PFIX;
    n++;
  }
  *stepsOut = n;
  d = r.compareMemory();
  if (!d.empty()) return d + " (end of run)";
  return "";
}

static void writeStats(bool ok) {
  const char *out = getenv("C03_OUT");
  if (!out) return;
  FILE *f = fopen(out, "w");
  if (!f) return;
  vjson::Obj o;
  o.num("cases", g_cases); o.num("steps", g_steps); o.num("defined_grid_steps", g_defined); o.num("undefined", g_undefined);
  o.num("out_of_domain", g_outOfDomain); o.num("nontrivial_sequences", g_nontrivialSeq); o.num("distinct", g_distinctSteps);
  vjson::Obj c; for (auto &kv : g_classes) c.num(kv.first, kv.second); o.raw("classes", c.done());
  vjson::Arr s; for (auto &x : g_samples) s.raw(x); o.raw("samples", s.done());
  o.boolean("ok", ok);
  fprintf(f, "%s\n", o.done().c_str());
  fclose(f);
}

static std::string hexDecode(const std::string &h) {
  std::string r;
  for (size_t i = 0; i + 1 < h.size(); i += 2) r.push_back((char)strtoul(h.substr(i, 2).c_str(), nullptr, 16));
  return r;
}

int main(int argc, char **argv) {
  if (argc < 2) { fprintf(stderr, "usage: c03 grid|seq|image|state ...\n"); return 2; }
  std::string mode = argv[1];
  g_failFile = getenv("C03_FAIL");
  for (int i = 0; i < 8; i++) { std::string c; for (int k = 0; k < 5 + i; k++) c.push_back((char)(i * 37 + k * 11 + 128 * (k & 1))); g_simin[i] = c; }
  char *vargv[] = {argv[0], nullptr};
  Rtl rtl(1, vargv);
  g_rtl = &rtl;
  bool ok = true;
  if (mode == "grid") {
    ok = rc::check("C03 grid: one clock of the RTL == one ISA step for every instruction byte", [&]() {
      State s = *isagen::genState(true);
      g_cases++;
      if (g_samples.size() < 4 && g_cases % 40 == 5) g_samples.push_back(isagen::toJson(s));
      int failByte = -1;
      std::string d = runGridState(s, -1, false, &failByte);
      if (!d.empty()) { vjson::Obj o; o.str("kind", "grid"); o.raw("state", isagen::toJson(s)); o.snum("byte", failByte); o.str("diff", d); recordFail(o.done()); }
      RC_ASSERT(d.empty());
    });
  } else if (mode == "seq") {
    ok = rc::check("C03 sequences: cycle-for-cycle equal to the ISA trace from reset", [&]() {
      auto q = *isagen::genSequence();
      g_cases++;
      auto bytes = isagen::assembleSequence(q);
      std::string file;
      uint32_t words = bytes.size() / 4;
      for (int i = 0; i < 4; i++) file.push_back((char)((words >> (8 * i)) & 0xFF));
      file.append(bytes.begin(), bytes.end());
      if (g_samples.size() < 4 && g_cases % 50 == 7) g_samples.push_back(isagen::toJson(q));
      uint64_t steps = 0;
      std::string d = runImage(file, q.input, 400, &steps);
      if (steps >= 8) { g_nontrivialSeq++; uint64_t h = 0; for (auto c : bytes) h = hashMix(h, c); if (g_distinct.insert(h).second) g_distinctSteps++; }
      if (!d.empty()) { vjson::Obj o; o.str("kind", "image"); o.hex("file", file); o.hex("input", q.input); o.str("diff", d); o.num("max_steps", 400); recordFail(o.done()); }
      RC_ASSERT(d.empty());
    });
  } else if (mode == "image" && argc >= 3) {
    std::string file = readFileStr(argv[2]);
    std::string input = argc >= 4 ? readFileStr(argv[3]) : "";
    uint64_t maxSteps = argc >= 5 ? strtoull(argv[4], nullptr, 10) : 50000000ull;
    uint64_t steps = 0;
    g_cases++;
    std::string d = runImage(file, input, maxSteps, &steps);
    if (steps >= 8) { g_nontrivialSeq++; uint64_t h = 0; for (auto c : file) h = hashMix(h, (unsigned char)c); if (g_distinct.insert(h).second) g_distinctSteps++; }
    if (!d.empty()) { vjson::Obj o; o.str("kind", "image"); o.hex("file", file.size() < 20000 ? file : std::string()); o.str("path", argv[2]); o.hex("input", input); o.str("diff", d); recordFail(o.done()); ok = false; }
  } else if (mode == "state" && argc >= 17) {
    State s; uint32_t v[13];
    for (int i = 0; i < 13; i++) v[i] = (uint32_t)strtoull(argv[2 + i], nullptr, 10);
    s.pc = v[0]; s.areg = v[1]; s.breg = v[2]; s.oreg = v[3]; s.target = v[4]; s.targetVal = v[5]; s.fetchWord = v[6]; s.sp = v[7];
    s.spVals[0] = v[8]; s.spVals[1] = v[9]; s.spVals[2] = v[10]; s.svcNum = v[11]; s.steer = v[12] != 0;
    s.input = hexDecode(std::string(argv[15]).substr(1));
    int byte = atoi(argv[16]);
    int failByte = -1;
    g_cases++;
    std::string d = runGridState(s, byte, true, &failByte);
    if (!d.empty()) { vjson::Obj o; o.str("kind", "grid"); o.raw("state", isagen::toJson(s)); o.snum("byte", failByte); o.str("diff", d); recordFail(o.done()); printf("FAIL %s\n", d.c_str()); ok = false; }
  } else { fprintf(stderr, "bad mode\n"); return 2; }
  writeStats(ok);
  rtl.top->final();
  return ok ? 0 : 1;
}
