// C04: enumerate (mnemonic, literal) pairs through hexasm's text interface and
// decode the emitted bytes with the ISA's own prefix rule.
//   c04enum --unsigned LO HI [--rot R] [--full]     literals LO..HI-1 as unsigned decimals
//   c04enum --negative LO HI [--rot R] [--full]     literals -LO..-(HI-1)
//   c04enum --list FILE                            one signed value per line, all mnemonics, both spellings
// Prints one JSON object.  Progress (current batch) goes to the file named by --progress.
#include <cinttypes>
#include <cstdio>
#include <cstdlib>
#include <fstream>
#include <string>
#include <vector>

#include "inproc.hpp"
#include "refisa.hpp"
#include "vjson.hpp"

struct Line { unsigned mnem; std::string literal; uint32_t expect; };

static uint64_t cases = 0, nontrivial = 0, failures = 0, nonMinimal = 0;
static uint64_t prefixHist[9] = {0};
static std::vector<std::string> failList, samples;
static const char *progressFile = nullptr;

static void fail(const std::string &what) {
  failures++;
  if (failList.size() < 10) failList.push_back(what);
}

static unsigned minimalPrefixes(uint32_t u) {
  // Shortest prefix chain that can deliver u: positive chain needs ceil(bits/4)-1 PFIX;
  // a negative chain (NFIX first) can deliver any value whose bits above 4*(k+1) are all ones, k >= 1.
  unsigned best = 8;
  for (unsigned k = 0; k <= 7; k++) {
    unsigned bits = 4 * (k + 1);
    if (bits >= 32 || (u >> bits) == 0) { best = k; break; }
  }
  for (unsigned k = 1; k <= 7; k++) {
    unsigned bits = 4 * (k + 1);
    if (bits >= 32 || (u >> bits) == (0xFFFFFFFFu >> bits)) { if (k < best) best = k; break; }
  }
  return best;
}

static void runBatch(const std::vector<Line> &lines) {
  if (lines.empty()) return;
  if (progressFile) {
    FILE *f = fopen(progressFile, "w");
    if (f) { fprintf(f, "%s %s .. %s %s\n", inproc::IMM_MNEMONICS[lines.front().mnem], lines.front().literal.c_str(),
                     inproc::IMM_MNEMONICS[lines.back().mnem], lines.back().literal.c_str()); fclose(f); }
  }
  std::string text;
  text.reserve(lines.size() * 20);
  for (auto &l : lines) { text += inproc::IMM_MNEMONICS[l.mnem]; text += ' '; text += l.literal; text += '\n'; }
  auto r = inproc::assemble(text);
  if (!r.ok) {
    // Find the offending line by assembling singly.
    for (auto &l : lines) {
      std::string one = std::string(inproc::IMM_MNEMONICS[l.mnem]) + " " + l.literal + "\n";
      auto r1 = inproc::assemble(one);
      cases++;
      if (!r1.ok) fail(one.substr(0, one.size() - 1) + " : rejected: " + r1.errWhat);
    }
    return;
  }
  const uint8_t *buf = (const uint8_t *)r.image.data();
  size_t size = r.image.size(), pos = 0;
  for (auto &l : lines) {
    cases++;
    auto d = refisa::decodeAt(buf, size, pos);
    std::string name = std::string(inproc::IMM_MNEMONICS[l.mnem]) + " " + l.literal;
    if (d.length == 0) { fail(name + " : image ends inside the encoding"); return; }
    if (d.opcode != inproc::IMM_OPCODES[l.mnem]) {
      char b[128]; snprintf(b, sizeof b, " : final byte has opcode %X after %u prefixes at offset %zu", d.opcode, d.prefixes, pos);
      fail(name + b); return; // lost synchronisation: later lines cannot be attributed
    }
    if (d.operand != l.expect) {
      char b[160]; snprintf(b, sizeof b, " : decodes to %" PRIu32 " (0x%08x), expected 0x%08x, %u bytes", d.operand, d.operand, l.expect, d.length);
      fail(name + b);
    }
    unsigned k = d.prefixes;
    prefixHist[k > 8 ? 8 : k]++;
    if (k >= 1) nontrivial++;
    if (k != minimalPrefixes(l.expect)) nonMinimal++;
    if (samples.size() < 8 && (cases % 977 == 1 || k >= 7)) {
      char b[200]; std::string hex;
      for (unsigned i = 0; i < d.length; i++) { snprintf(b, sizeof b, "%02x", buf[pos + i]); hex += b; }
      samples.push_back(name + " -> " + hex);
    }
    pos += d.length;
  }
  // Nothing but zero padding to the word boundary may follow.
  if (size % 4 != 0) fail("image size not a multiple of 4");
  if (size - pos >= 4) fail("more than alignment padding after the last instruction");
  for (; pos < size; pos++) if (buf[pos] != 0) { fail("non-zero byte after the last instruction"); break; }
}

int main(int argc, char **argv) {
  std::string mode;
  uint64_t lo = 0, hi = 0, rot = 0;
  bool full = false;
  const char *listFile = nullptr;
  for (int i = 1; i < argc; i++) {
    std::string a = argv[i];
    if ((a == "--unsigned" || a == "--negative") && i + 2 < argc) { mode = a.substr(2); lo = strtoull(argv[++i], 0, 10); hi = strtoull(argv[++i], 0, 10); }
    else if (a == "--list" && i + 1 < argc) { mode = "list"; listFile = argv[++i]; }
    else if (a == "--cases" && i + 1 < argc) { mode = "cases"; listFile = argv[++i]; }
    else if (a == "--rot" && i + 1 < argc) rot = strtoull(argv[++i], 0, 10);
    else if (a == "--full") full = true;
    else if (a == "--progress" && i + 1 < argc) progressFile = argv[++i];
    else { fprintf(stderr, "bad arg %s\n", argv[i]); return 2; }
  }
  const size_t BATCH = 4096;
  std::vector<Line> batch;
  auto push = [&](unsigned m, const std::string &lit, uint32_t expect) {
    batch.push_back(Line{m, lit, expect});
    if (batch.size() >= BATCH) { runBatch(batch); batch.clear(); }
  };
  if (mode == "unsigned" || mode == "negative") {
    for (uint64_t v = lo; v < hi; v++) {
      std::string lit = (mode == "negative" ? "-" : "") + std::to_string(v);
      uint32_t expect = mode == "negative" ? (uint32_t)(0 - (uint32_t)v) : (uint32_t)v;
      if (full) for (unsigned m = 0; m < 12; m++) push(m, lit, expect);
      else push((unsigned)((v + rot) % 12), lit, expect);
    }
  } else if (mode == "list") {
    std::ifstream f(listFile);
    long long v;
    while (f >> v) {
      uint32_t u = (uint32_t)(uint64_t)v;
      for (unsigned m = 0; m < 12; m++) {
        push(m, std::to_string(u), u);                                        // unsigned spelling
        if (u != 0) {
          uint64_t n = (uint64_t)0x100000000ull - u;                          // "-n" with n = 2^32 - u
          if (n <= 0x80000000ull) push(m, "-" + std::to_string(n), u);        // within the signed range
        }
      }
    }
  } else if (mode == "cases") {
    // Explicit replay cases: "<mnemonic index> <literal> <expected operand>" per line.
    std::ifstream f(listFile);
    unsigned m; std::string lit; unsigned long long e;
    while (f >> m >> lit >> e) push(m % 12, lit, (uint32_t)e);
  } else { fprintf(stderr, "no mode\n"); return 2; }
  runBatch(batch);
  vjson::Obj o;
  o.num("cases", cases); o.num("nontrivial", nontrivial); o.num("failures", failures); o.num("non_minimal", nonMinimal);
  vjson::Arr h; for (int i = 0; i < 9; i++) h.num(prefixHist[i]); o.raw("prefix_hist", h.done());
  vjson::Arr fl; for (auto &s : failList) fl.str(s); o.raw("fail_list", fl.done());
  vjson::Arr sm; for (auto &s : samples) sm.str(s); o.raw("samples", sm.done());
  printf("%s\n", o.done().c_str());
  return failures ? 1 : 0;
}
