// Reference model of the Hex ISA, written from docs/PDFs/hexb.pdf (instruction
// table p.4-5, reference C simulator p.6-10).  It deliberately does not include
// or look at hexsim.hpp.  On top of the document's semantics it is a *monitor*:
// every fetch/load/store is range-checked, undefined encodings stop the run with
// a named status, and every step reports what it did.
#ifndef VERIF_REFISA_HPP
#define VERIF_REFISA_HPP

#include <cstdint>
#include <cstring>
#include <string>
#include <vector>

namespace refisa {

constexpr uint32_t MEM_WORDS = 200000; // "unsigned int mem[200000]"
constexpr uint32_t MEM_BYTES = MEM_WORDS * 4;

enum Opcode : uint8_t {
  LDAM = 0x0, LDBM = 0x1, STAM = 0x2, LDAC = 0x3, LDBC = 0x4, LDAP = 0x5,
  LDAI = 0x6, LDBI = 0x7, STAI = 0x8, BR = 0x9, BRZ = 0xA, BRN = 0xB,
  OPR = 0xD, PFIX = 0xE, NFIX = 0xF
};
enum Opr : uint32_t { BRB = 0, ADD = 1, SUB = 2, SVC = 3 };

enum class Status : uint8_t {
  RUNNING,
  EXITED,
  // Leaves-the-defined-domain statuses.
  FAULT_FETCH,   // pc outside memory
  FAULT_LOAD,    // load address outside memory
  FAULT_STORE,   // store address outside memory
  FAULT_SVC_ARG, // sp-relative argument slot of a system call outside memory
  UNDEF_OPCODE,  // opcode 0xC
  UNDEF_OPR,     // OPR with accumulated operand > 3
  UNDEF_SVC,     // SVC with areg > 2
  IO_DIRECTION,  // one file index used for both reading and writing
};

inline const char *statusName(Status s) {
  switch (s) {
  case Status::RUNNING: return "running";
  case Status::EXITED: return "exited";
  case Status::FAULT_FETCH: return "fault_fetch";
  case Status::FAULT_LOAD: return "fault_load";
  case Status::FAULT_STORE: return "fault_store";
  case Status::FAULT_SVC_ARG: return "fault_svc_arg";
  case Status::UNDEF_OPCODE: return "undef_opcode";
  case Status::UNDEF_OPR: return "undef_opr";
  case Status::UNDEF_SVC: return "undef_svc";
  case Status::IO_DIRECTION: return "io_direction";
  }
  return "?";
}

inline const char *opcodeName(unsigned opc) {
  static const char *names[16] = {"LDAM", "LDBM", "STAM", "LDAC", "LDBC", "LDAP",
                                  "LDAI", "LDBI", "STAI", "BR",   "BRZ",  "BRN",
                                  "?C",   "OPR",  "PFIX", "NFIX"};
  return names[opc & 15];
}

/// The I/O world of the reference simulator: console in/out plus eight file
/// streams selected by (stream >> 8) & 7 when stream >= 256.
struct IO {
  std::string in;          // console input
  size_t inPos = 0;        // bytes consumed
  std::string out;         // console output
  std::string fileIn[8];   // contents of simin<n>
  size_t fileInPos[8] = {0, 0, 0, 0, 0, 0, 0, 0};
  std::string fileOut[8];  // bytes written to simout<n>
  bool usedIn[8] = {false, false, false, false, false, false, false, false};
  bool usedOut[8] = {false, false, false, false, false, false, false, false};
  uint64_t reads = 0, eofReads = 0, writes = 0;
};

/// What one step did (for lock-step comparison and monitors).
struct StepInfo {
  uint32_t fetchAddr = 0; // byte address the instruction was fetched from
  uint8_t inst = 0;       // the instruction byte
  uint32_t operand = 0;   // oreg | nibble at execution
  bool load = false;      // a data load happened
  uint32_t loadAddr = 0;  // word address
  bool store = false;     // a data store happened (incl. the store of a READ)
  uint32_t storeAddr = 0; // word address
  uint32_t storeData = 0;
  uint32_t storeOld = 0;  // previous content of the stored word (lets a monitor undo the step)
  bool isSvc = false;
  uint32_t svcNum = 0;
  bool branchTaken = false;
  // Additional loads performed by a system call (word addresses), for monitors.
  uint32_t svcLoads[3] = {0, 0, 0};
  unsigned numSvcLoads = 0;
};

struct Machine {
  uint32_t pc = 0, areg = 0, breg = 0, oreg = 0;
  std::vector<uint32_t> mem;
  Status status = Status::RUNNING;
  uint32_t exitValue = 0;
  uint64_t steps = 0;
  IO io;

  Machine() : mem(MEM_WORDS, 0) {}

  void reset() {
    pc = areg = breg = oreg = 0;
    status = Status::RUNNING;
    exitValue = 0;
    steps = 0;
  }

  /// Load a binary file image: a little-endian length word (in words), then
  /// the program bytes.  Returns the number of program words, or -1.
  long loadImage(const std::string &file) {
    if (file.size() < 4) return -1;
    uint32_t words = (uint8_t)file[0] | ((uint8_t)file[1] << 8) |
                     ((uint8_t)file[2] << 16) | ((uint32_t)(uint8_t)file[3] << 24);
    uint64_t bytes = (uint64_t)words * 4;
    if (words > MEM_WORDS || 4 + bytes > file.size()) return -1;
    for (uint32_t i = 0; i < words; i++) {
      const unsigned char *p = (const unsigned char *)file.data() + 4 + 4 * (size_t)i;
      mem[i] = p[0] | (p[1] << 8) | (p[2] << 16) | ((uint32_t)p[3] << 24);
    }
    return (long)words;
  }

  uint8_t peekByte(uint32_t addr) const {
    return (mem[addr >> 2] >> ((addr & 3) * 8)) & 0xFF;
  }

  /// Is `inst` executed in the current state a system call by ISA decode?
  bool isSvcByte(uint8_t inst) const {
    return ((inst >> 4) & 0xF) == OPR && (oreg | (inst & 0xF)) == SVC;
  }

  /// Execute one instruction.  Returns false when the machine is not running
  /// after the step (exit or leaving the defined domain); in the latter case
  /// the architectural state is left as it was before the step.
  bool step(StepInfo *info = nullptr) {
    StepInfo local;
    StepInfo &si = info ? *info : local;
    si = StepInfo();
    if (status != Status::RUNNING) return false;
    if (pc >= MEM_BYTES) { status = Status::FAULT_FETCH; return false; }
    uint8_t inst = peekByte(pc);
    uint32_t npc = pc + 1;
    uint32_t opnd = oreg | (inst & 0xF);
    si.fetchAddr = pc;
    si.inst = inst;
    si.operand = opnd;
    uint32_t na = areg, nb = breg, no = 0;
    switch ((inst >> 4) & 0xF) {
    case LDAM:
      if (opnd >= MEM_WORDS) { status = Status::FAULT_LOAD; return false; }
      si.load = true; si.loadAddr = opnd; na = mem[opnd]; break;
    case LDBM:
      if (opnd >= MEM_WORDS) { status = Status::FAULT_LOAD; return false; }
      si.load = true; si.loadAddr = opnd; nb = mem[opnd]; break;
    case STAM:
      if (opnd >= MEM_WORDS) { status = Status::FAULT_STORE; return false; }
      si.store = true; si.storeAddr = opnd; si.storeData = areg; break;
    case LDAC: na = opnd; break;
    case LDBC: nb = opnd; break;
    case LDAP: na = npc + opnd; break;
    case LDAI: {
      uint32_t a = areg + opnd;
      if (a >= MEM_WORDS) { status = Status::FAULT_LOAD; return false; }
      si.load = true; si.loadAddr = a; na = mem[a]; break;
    }
    case LDBI: {
      uint32_t a = breg + opnd;
      if (a >= MEM_WORDS) { status = Status::FAULT_LOAD; return false; }
      si.load = true; si.loadAddr = a; nb = mem[a]; break;
    }
    case STAI: {
      uint32_t a = breg + opnd;
      if (a >= MEM_WORDS) { status = Status::FAULT_STORE; return false; }
      si.store = true; si.storeAddr = a; si.storeData = areg; break;
    }
    case BR: npc = npc + opnd; si.branchTaken = true; break;
    case BRZ: if (areg == 0) { npc = npc + opnd; si.branchTaken = true; } break;
    case BRN: if ((int32_t)areg < 0) { npc = npc + opnd; si.branchTaken = true; } break;
    case PFIX: no = opnd << 4; break;
    case NFIX: no = 0xFFFFFF00u | (opnd << 4); break;
    case OPR:
      switch (opnd) {
      case BRB: npc = breg; si.branchTaken = true; break;
      case ADD: na = areg + breg; break;
      case SUB: na = areg - breg; break;
      case SVC: {
        si.isSvc = true; si.svcNum = areg;
        if (areg > 2) { status = Status::UNDEF_SVC; return false; }
        if (1 >= MEM_WORDS) { status = Status::FAULT_SVC_ARG; return false; }
        uint32_t sp = mem[1];
        si.svcLoads[si.numSvcLoads++] = 1;
        if (areg == 0) {
          uint32_t a = sp + 2;
          if (a >= MEM_WORDS) { status = Status::FAULT_SVC_ARG; return false; }
          si.svcLoads[si.numSvcLoads++] = a;
          exitValue = mem[a];
          status = Status::EXITED;
        } else if (areg == 1) {
          uint32_t a = sp + 2, b = sp + 3;
          if (a >= MEM_WORDS || b >= MEM_WORDS) { status = Status::FAULT_SVC_ARG; return false; }
          si.svcLoads[si.numSvcLoads++] = a;
          si.svcLoads[si.numSvcLoads++] = b;
          uint32_t stream = mem[b];
          char byte = (char)(mem[a] & 0xFF);
          if ((int32_t)stream < 256) {
            io.out.push_back(byte);
          } else {
            unsigned f = (stream >> 8) & 7;
            if (io.usedIn[f]) { status = Status::IO_DIRECTION; return false; }
            io.usedOut[f] = true;
            io.fileOut[f].push_back(byte);
          }
          io.writes++;
        } else {
          uint32_t a = sp + 2, d = sp + 1;
          if (a >= MEM_WORDS || d >= MEM_WORDS) { status = Status::FAULT_SVC_ARG; return false; }
          si.svcLoads[si.numSvcLoads++] = a;
          uint32_t stream = mem[a];
          uint32_t value;
          if ((int32_t)stream < 256) {
            if (io.inPos < io.in.size()) value = (uint8_t)io.in[io.inPos++];
            else { value = 0xFF; io.eofReads++; } // EOF (-1) & 0xFF
          } else {
            unsigned f = (stream >> 8) & 7;
            if (io.usedOut[f]) { status = Status::IO_DIRECTION; return false; }
            io.usedIn[f] = true;
            if (io.fileInPos[f] < io.fileIn[f].size()) value = (uint8_t)io.fileIn[f][io.fileInPos[f]++];
            else { value = 0xFF; io.eofReads++; }
          }
          io.reads++;
          si.store = true; si.storeAddr = d; si.storeData = value & 0xFF;
        }
        break;
      }
      default: status = Status::UNDEF_OPR; return false;
      }
      break;
    default: status = Status::UNDEF_OPCODE; return false;
    }
    if (si.store) { si.storeOld = mem[si.storeAddr]; mem[si.storeAddr] = si.storeData; }
    pc = npc; areg = na; breg = nb; oreg = no;
    steps++;
    return status == Status::RUNNING;
  }
};

/// Decode one (possibly prefixed) instruction from a byte buffer with the ISA's
/// prefix rule, starting from a clear operand register.  Returns the number of
/// bytes consumed (0 if the buffer ends inside a prefix chain).
struct Decoded { unsigned length; uint8_t opcode; uint32_t operand; unsigned prefixes; };
inline Decoded decodeAt(const uint8_t *buf, size_t size, size_t pos) {
  uint32_t oreg = 0;
  unsigned n = 0;
  while (pos + n < size) {
    uint8_t inst = buf[pos + n];
    uint32_t opnd = oreg | (inst & 0xF);
    unsigned opc = inst >> 4;
    n++;
    if (opc == PFIX) oreg = opnd << 4;
    else if (opc == NFIX) oreg = 0xFFFFFF00u | (opnd << 4);
    else return Decoded{n, (uint8_t)opc, opnd, n - 1};
  }
  return Decoded{0, 0, 0, n};
}

} // namespace refisa

#endif
