// Memory-region and stack-balance monitor over the reference ISA model (C08).
// Everything is derived from the *binary*: no compiler constants or label names.
#ifndef VERIF_REFMON_HPP
#define VERIF_REFMON_HPP
#include <cstdint>
#include <string>
#include <vector>

#include "refisa.hpp"
#include "vjson.hpp"

namespace refmon {

struct Violation { std::string kind; uint64_t step; uint32_t addr; uint32_t value; };

struct Monitor {
  uint32_t imageWords = 0;
  uint32_t s0 = 0;            // load-time stack pointer
  uint32_t dataEnd = 0;       // image data words are [1, dataEnd)
  bool haveDataEnd = false;
  bool haveRet = false;
  uint32_t mainRet = 0;       // return address the start stub passes to main
  std::vector<uint8_t> fetched, stored;
  std::vector<Violation> violations;
  uint32_t minSp = 0, maxSpSeen = 0;
  uint32_t lowestStackStore = 0xFFFFFFFF, highestStore = 0;
  uint64_t mainReturns = 0, spStores = 0, stores = 0, loads = 0;
  uint32_t firstInstrs = 0;

  void add(const char *kind, uint64_t step, uint32_t addr, uint32_t value) {
    if (violations.size() < 8) violations.push_back(Violation{kind, step, addr, value});
  }

  void begin(const refisa::Machine &m, uint32_t words) {
    imageWords = words;
    s0 = m.mem[1];
    minSp = s0;
    maxSpSeen = s0;
    fetched.assign(refisa::MEM_WORDS, 0);
    stored.assign(refisa::MEM_WORDS, 0);
  }

  void afterStep(const refisa::Machine &m, const refisa::StepInfo &si) {
    unsigned opc = si.inst >> 4;
    uint32_t fw = si.fetchAddr >> 2;
    if (stored[fw]) add("fetch_from_stored_word", m.steps, fw, 0);
    fetched[fw] = 1;
    // The first non-prefix instruction is the initial branch over the data.
    if (!haveDataEnd && opc != refisa::PFIX && opc != refisa::NFIX) {
      haveDataEnd = true;
      if (opc == refisa::BR) dataEnd = m.pc >> 2; else dataEnd = 1;
    }
    if (haveDataEnd && !haveRet && opc == refisa::LDAP) { haveRet = true; mainRet = m.areg; }
    if (si.load) loads++;
    if (si.store) {
      stores++;
      uint32_t w = si.storeAddr;
      if (fetched[w]) add("store_to_fetched_word", m.steps, w, si.storeData);
      stored[w] = 1;
      bool inData = w >= 1 && w < dataEnd;
      bool above = w >= imageWords;
      if (!inData && !above) add("store_into_image_code", m.steps, w, si.storeData);
      if (w > highestStore) highestStore = w;
      if (above && w < lowestStackStore) lowestStackStore = w;
      if (w == 1) {
        spStores++;
        if (si.storeData > s0) add("sp_above_load_value", m.steps, w, si.storeData);
        if (si.storeData < minSp) minSp = si.storeData;
      }
    }
    if (haveRet && m.pc == mainRet && opc != refisa::LDAP) {
      // Control has arrived at the return address of main: main has returned.
      mainReturns++;
      if (m.mem[1] != s0) add("sp_not_restored_at_main_return", m.steps, 1, m.mem[1]);
    }
  }

  std::string report() {
    vjson::Obj o;
    o.num("s0", s0);
    o.num("data_end", dataEnd);
    o.num("main_ret", mainRet);
    o.num("min_sp", minSp);
    o.num("lowest_store_above_image", lowestStackStore == 0xFFFFFFFF ? 0 : lowestStackStore);
    o.num("highest_store", highestStore);
    o.num("main_returns", mainReturns);
    o.num("sp_stores", spStores);
    o.num("stores", stores);
    o.num("loads", loads);
    vjson::Arr a;
    for (auto &v : violations) {
      vjson::Obj vo;
      vo.str("kind", v.kind); vo.num("step", v.step); vo.num("addr", v.addr); vo.num("value", v.value);
      a.raw(vo.done());
    }
    o.raw("violations", a.done());
    return o.done();
  }
};

} // namespace refmon
#endif
