// Shared pieces of the libFuzzer targets: counters that survive a crash of a later input,
// and a token-level custom mutator.
#ifndef VERIF_FUZZ_COMMON_HPP
#define VERIF_FUZZ_COMMON_HPP
#include <cstdint>
#include <cstdio>
#include <cstdlib>
#include <cstring>
#include <string>
#include <unistd.h>
#include <vector>

extern "C" size_t LLVMFuzzerMutate(uint8_t *Data, size_t Size, size_t MaxSize);

namespace fz {

struct Counters {
  uint64_t execs = 0, accepted = 0, rejected = 0, rejectedLexParse = 0, rejectedSemantic = 0, pastParser = 0,
           detChecks = 0, otherActions = 0, nontrivial = 0, excludedKnown = 0;
};
static Counters g;

inline void dump() {
  char path[256];
  const char *dir = getenv("FUZZ_STATS_DIR");
  if (!dir) return;
  snprintf(path, sizeof path, "%s/stats-%d.json", dir, (int)getpid());
  FILE *f = fopen(path, "w");
  if (!f) return;
  fprintf(f, "{\"execs\":%llu,\"accepted\":%llu,\"rejected\":%llu,\"rejected_lex_parse\":%llu,\"rejected_semantic\":%llu,\"past_parser\":%llu,"
             "\"det_checks\":%llu,\"other_actions\":%llu,\"nontrivial\":%llu,\"excluded_known\":%llu}\n",
          (unsigned long long)g.execs, (unsigned long long)g.accepted, (unsigned long long)g.rejected, (unsigned long long)g.rejectedLexParse,
          (unsigned long long)g.rejectedSemantic, (unsigned long long)g.pastParser, (unsigned long long)g.detChecks, (unsigned long long)g.otherActions,
          (unsigned long long)g.nontrivial, (unsigned long long)g.excludedKnown);
  fclose(f);
}

inline void tick() {
  g.execs++;
  if ((g.execs & 0x3FF) == 0) dump();   // a trap skips atexit: keep the file fresh
}

[[noreturn]] inline void oracleFail(const char *what, const std::string &detail = "") {
  dump();
  fprintf(stderr, "ORACLE-VIOLATION: %s %s\n", what, detail.c_str());
  fflush(stderr);
  __builtin_trap();
}

inline uint32_t hash(const uint8_t *d, size_t n) {
  uint32_t h = 2166136261u;
  for (size_t i = 0; i < n; i++) { h ^= d[i]; h *= 16777619u; }
  return h;
}

// --- token-level mutation ---------------------------------------------------
inline std::vector<std::string> tokenize(const std::string &s) {
  std::vector<std::string> t;
  size_t i = 0;
  while (i < s.size()) {
    unsigned char c = s[i];
    size_t j = i + 1;
    if (isalpha(c)) { while (j < s.size() && (isalnum((unsigned char)s[j]) || s[j] == '_')) j++; }
    else if (isdigit(c)) { while (j < s.size() && isdigit((unsigned char)s[j])) j++; }
    else if (isspace(c)) { while (j < s.size() && isspace((unsigned char)s[j])) j++; }
    else if (c == '"') { while (j < s.size() && s[j] != '"') j++; if (j < s.size()) j++; }
    else if ((c == ':' || c == '<' || c == '>' || c == '~') && j < s.size() && s[j] == '=') j++;
    t.push_back(s.substr(i, j - i));
    i = j;
  }
  return t;
}

inline size_t tokenMutate(uint8_t *data, size_t size, size_t maxSize, unsigned seed, const char *const *dict, size_t dictN) {
  std::string s((const char *)data, size);
  auto t = tokenize(s);
  if (t.empty()) return 0;
  uint32_t r = seed * 2654435761u + 12345;
  auto rnd = [&](size_t n) { r = r * 1664525u + 1013904223u; return n ? (size_t)((r >> 8) % n) : 0; };
  size_t i = rnd(t.size());
  switch (rnd(7)) {
  case 0: t.erase(t.begin() + i); break;                                   // delete a token
  case 1: t.insert(t.begin() + i, t[i]); break;                            // duplicate
  case 2: { size_t j = rnd(t.size()); std::swap(t[i], t[j]); break; }      // swap two
  case 3: t[i] = dict[rnd(dictN)]; break;                                  // replace by a keyword/operator
  case 4: t.insert(t.begin() + i, std::string(dict[rnd(dictN)]) + " "); break;
  case 5: {                                                                // a byte >= 0x80 inside a string or character literal
    size_t k = i;
    for (size_t n = 0; n < t.size(); n++, k = (k + 1) % t.size()) if (t[k].size() >= 3 && (t[k][0] == '"' || t[k][0] == '\'')) break;
    if (t[k].size() >= 3 && (t[k][0] == '"' || t[k][0] == '\'')) t[k][1 + rnd(t[k].size() - 2)] = (char)(0x80 + rnd(0x7F));
    else t[i] = "\"\xe9\"";
    break;
  }
  default: {                                                               // duplicate or delete a run of tokens (a group)
    size_t len = 1 + rnd(8);
    if (i + len > t.size()) len = t.size() - i;
    std::vector<std::string> grp(t.begin() + i, t.begin() + i + len);
    if (rnd(2)) t.insert(t.begin() + i, grp.begin(), grp.end()); else t.erase(t.begin() + i, t.begin() + i + len);
  }
  }
  std::string out;
  for (auto &x : t) out += x;
  if (out.size() > maxSize) out.resize(maxSize);
  memcpy(data, out.data(), out.size());
  return out.size();
}

} // namespace fz
#endif
