// In-process runner of the repository's assembler (sanitizer build).
//   asmtool SRC [--fill N] [--before OTHER_SRC] [--out FILE]
// Assembles SRC through Lexer::openFile -> Parser -> CodeGen -> emitProgramText + emitBin and
// prints one JSON object: accepted?, exception type/message, the complete binary file
// (header word, image, debug table) as hex, and the --instrs listing.
#include <cassert>
#include <cstdio>
#include <cstdlib>
#include <fstream>
#include <iostream>
#include <sstream>
#include <string>
#include <unistd.h>
#include <vector>

#include "fillnew.hpp"
#include "hexasm.hpp"
#include "vjson.hpp"

static std::string slurp(const std::string &p) { std::ifstream f(p, std::ios::binary); std::ostringstream ss; ss << f.rdbuf(); return ss.str(); }

struct Result { bool ok = false; std::string errType, errWhat, file, listing; bool hasLoc = false; };

static Result assembleFile(const std::string &src, const std::string &outPath) {
  Result r;
  unlink(outPath.c_str());
  try {
    hexasm::Lexer lexer;
    hexasm::Parser parser(lexer);
    lexer.openFile(src);
    auto program = parser.parseProgram();
    hexasm::CodeGen codeGen(program);
    std::ostringstream ls;
    codeGen.emitProgramText(ls);
    r.listing = ls.str();
    codeGen.emitBin(outPath);
    r.file = slurp(outPath);
    r.ok = true;
  } catch (const hexutil::Error &e) {
    r.errType = "hexutil::Error"; r.errWhat = e.what(); r.hasLoc = e.hasLocation();
  } catch (const std::exception &e) {
    r.errType = "std::exception"; r.errWhat = e.what();
  }
  return r;
}

int main(int argc, char **argv) {
  std::string src, before, outPath = "asmtool.out.bin";
  int fill = -1;
  bool det = false;
  for (int i = 1; i < argc; i++) {
    std::string a = argv[i];
    if (a == "--fill" && i + 1 < argc) fill = atoi(argv[++i]);
    else if (a == "--before" && i + 1 < argc) before = argv[++i];
    else if (a == "--det") det = true;
    else if (a == "--out" && i + 1 < argc) outPath = argv[++i];
    else src = a;
  }
  if (src.empty()) { fprintf(stderr, "usage: asmtool SRC\n"); return 2; }
  if (det) {
    // determinism: fills 0x00, 0xA5, 0xFF, after assembling another source in the same process, and plain
    std::vector<Result> runs;
    int fills[3] = {0x00, 0xA5, 0x01};   // 0x01: the one byte value an uninitialised bool reads as a well-formed `true`
    for (int f : fills) { fillnew::set(f); fillnew::poisonStack(f); runs.push_back(assembleFile(src, outPath)); fillnew::set(-1); }
    fillnew::set(0x5A);
    if (!before.empty()) (void)assembleFile(before, outPath + ".before");
    fillnew::poisonStack(0x5A);
    runs.push_back(assembleFile(src, outPath));
    fillnew::set(-1);
    fillnew::poisonStack(0x3C);
    runs.push_back(assembleFile(src, outPath));
    bool same = true; std::string what;
    for (size_t i = 1; i < runs.size() && same; i++) {
      if (runs[i].ok != runs[0].ok) { same = false; what = "acceptance"; }
      else if (runs[i].file != runs[0].file) { same = false; what = "binary"; }
      else if (runs[i].listing != runs[0].listing) { same = false; what = "listing"; }
      else if (runs[i].errWhat != runs[0].errWhat) { same = false; what = "diagnostic"; }
    }
    vjson::Obj o;
    o.boolean("accepted", runs[0].ok); o.boolean("deterministic", same); o.str("what", what); o.num("binary_bytes", runs[0].file.size());
    printf("%s\n", o.done().c_str());
    return 0;
  }
  fillnew::set(fill);
  if (!before.empty()) (void)assembleFile(before, outPath + ".before");
  Result r = assembleFile(src, outPath);
  fillnew::set(-1);
  vjson::Obj o;
  o.boolean("ok", r.ok);
  o.str("err_type", r.errType); o.str("err_what", r.errWhat); o.boolean("err_has_location", r.hasLoc);
  o.hex("file", r.file);
  o.str("listing", r.listing);
  printf("%s\n", o.done().c_str());
  return 0;
}
