// In-process runner of the repository's assembler (sanitizer build).
//   asmtool SRC [--fill N] [--before OTHER_SRC] [--out FILE]
// Assembles SRC through Lexer::openFile -> Parser -> CodeGen -> emitProgramText + emitBin and
// prints one JSON object: accepted?, exception type/message, the complete binary file
// (header word, image, debug table) as hex, and the --instrs listing.
#include <cassert>
#include <cstdio>
#include <cstdlib>
#include <fstream>
#include <iostream>
#include <sstream>
#include <string>
#include <unistd.h>

#include "fillnew.hpp"
#include "hexasm.hpp"
#include "vjson.hpp"

static std::string slurp(const std::string &p) { std::ifstream f(p, std::ios::binary); std::ostringstream ss; ss << f.rdbuf(); return ss.str(); }

struct Result { bool ok = false; std::string errType, errWhat, file, listing; bool hasLoc = false; };

static Result assembleFile(const std::string &src, const std::string &outPath) {
  Result r;
  unlink(outPath.c_str());
  try {
    hexasm::Lexer lexer;
    hexasm::Parser parser(lexer);
    lexer.openFile(src);
    auto program = parser.parseProgram();
    hexasm::CodeGen codeGen(program);
    std::ostringstream ls;
    codeGen.emitProgramText(ls);
    r.listing = ls.str();
    codeGen.emitBin(outPath);
    r.file = slurp(outPath);
    r.ok = true;
  } catch (const hexutil::Error &e) {
    r.errType = "hexutil::Error"; r.errWhat = e.what(); r.hasLoc = e.hasLocation();
  } catch (const std::exception &e) {
    r.errType = "std::exception"; r.errWhat = e.what();
  }
  return r;
}

int main(int argc, char **argv) {
  std::string src, before, outPath = "asmtool.out.bin";
  int fill = -1;
  for (int i = 1; i < argc; i++) {
    std::string a = argv[i];
    if (a == "--fill" && i + 1 < argc) fill = atoi(argv[++i]);
    else if (a == "--before" && i + 1 < argc) before = argv[++i];
    else if (a == "--out" && i + 1 < argc) outPath = argv[++i];
    else src = a;
  }
  if (src.empty()) { fprintf(stderr, "usage: asmtool SRC\n"); return 2; }
  fillnew::set(fill);
  if (!before.empty()) (void)assembleFile(before, outPath + ".before");
  Result r = assembleFile(src, outPath);
  fillnew::set(-1);
  vjson::Obj o;
  o.boolean("ok", r.ok);
  o.str("err_type", r.errType); o.str("err_what", r.errWhat); o.boolean("err_has_location", r.hasLoc);
  o.hex("file", r.file);
  o.str("listing", r.listing);
  printf("%s\n", o.done().c_str());
  return 0;
}
