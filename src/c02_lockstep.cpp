// C02: hexsim::Processor (with the HEX_VERIF hook) in lock-step with the
// reference ISA model.
//   c02 grid              rapidcheck: generated state x all 256 instruction bytes
//   c02 seq               rapidcheck: generated instruction sequences through the real loader
//   c02 image FILE [IN]   one binary file (toolchain image) with console input file IN
//   c02 state pc areg breg oreg target targetVal fetchWord sp sv0 sv1 sv2 svcNum steer x<inputhex> <byte|-1>   replay of a grid state
// Environment: RC_PARAMS, C02_OUT (stats JSON), C02_FAIL (last failing case JSON), C02_DIR (scratch cwd).
#include <cassert>
#include <cinttypes>
#include <cstdio>
#include <cstdlib>
#include <cstring>
#include <csignal>
#include <fstream>
#include <map>
#include <memory>
#include <set>
#include <sstream>
#include <string>
#include <unistd.h>
#include <vector>

#include "hexsim.hpp"

#include "crashdump.hpp"
#include "isagen.hpp"
#include "refisa.hpp"
#include "vjson.hpp"

using isagen::State;

static uint64_t g_cases = 0, g_steps = 0, g_defined = 0, g_undefined = 0, g_outOfDomain = 0, g_nontrivialSeq = 0;
static std::map<std::string, uint64_t> g_classes;
static std::set<uint64_t> g_distinct;       // hashes of generated *states* / images (bounded by the number of cases)
static uint64_t g_distinctSteps = 0;        // defined (byte, state) steps of states seen for the first time
static std::vector<std::string> g_samples;
static std::string g_failJson;
static const char *g_failFile = nullptr;
static std::string g_simin[8];

static void cls(const std::string &k) { g_classes[k]++; }

static uint64_t hashMix(uint64_t h, uint64_t v) { h ^= v + 0x9e3779b97f4a7c15ull + (h << 6) + (h >> 2); return h; }

// Crash attribution: a sanitizer report or a fatal signal inside hexsim ends the process before rapidcheck can
// shrink or report anything, so the case being executed is kept here and written out by the death callback.
static std::string g_curKind, g_curState, g_curFile, g_curInput, g_curPath;
static uint64_t g_curMaxSteps = 0;
static volatile int g_curByte = -1;
extern "C" void __sanitizer_set_death_callback(void (*callback)(void));
static std::string hexEncode(const std::string &b) {
  static const char *d = "0123456789abcdef"; std::string r;
  for (unsigned char c : b) { r.push_back(d[c >> 4]); r.push_back(d[c & 15]); }
  return r;
}
static void onDeath() {
  if (!g_failFile || g_curKind.empty() || !g_failJson.empty()) return;
  FILE *f = fopen(g_failFile, "w");
  if (!f) return;
  const char *diff = "hexsim crashed (sanitizer report or fatal signal) while executing this case";
  if (g_curKind == "grid")
    fprintf(f, "{\"kind\":\"grid\",\"state\":%s,\"byte\":%d,\"diff\":\"%s\"}\n", g_curState.c_str(), (int)g_curByte, diff);
  else if (!g_curPath.empty())
    fprintf(f, "{\"kind\":\"image\",\"file\":\"\",\"path\":\"%s\",\"input\":\"%s\",\"max_steps\":%llu,\"diff\":\"%s\"}\n", g_curPath.c_str(), hexEncode(g_curInput).c_str(), (unsigned long long)g_curMaxSteps, diff);
  else
    fprintf(f, "{\"kind\":\"image\",\"file\":\"%s\",\"input\":\"%s\",\"max_steps\":%llu,\"diff\":\"%s\"}\n", hexEncode(g_curFile).c_str(), hexEncode(g_curInput).c_str(), (unsigned long long)g_curMaxSteps, diff);
  fclose(f);
}

static void recordFail(const std::string &json) {
  g_failJson = json;
  if (g_failFile) { FILE *f = fopen(g_failFile, "w"); if (f) { fprintf(f, "%s\n", json.c_str()); fclose(f); } }
}

static std::string readFileStr(const std::string &p) {
  std::ifstream f(p, std::ios::binary);
  std::ostringstream ss; ss << f.rdbuf(); return ss.str();
}

static void setupSimFiles() {
  for (int i = 0; i < 8; i++) {
    std::string c;
    for (int k = 0; k < 5 + i; k++) c.push_back((char)(i * 37 + k * 11 + 128 * (k & 1)));
    if (i == 3 || i == 6) {   // two input files do not exist: a read from them sees end of input at once
      g_simin[i].clear();
      unlink(("simin" + std::to_string(i)).c_str());
      continue;
    }
    g_simin[i] = c;
    std::ofstream f("simin" + std::to_string(i), std::ios::binary);
    f << c;
  }
}

static void clearSimout() {
  for (int i = 0; i < 8; i++) unlink(("simout" + std::to_string(i)).c_str());
}

/// A hexsim processor and the reference machine side by side.  Both live in
/// storage that is reused across cases (allocating and zeroing 2 x 800 KB per
/// case dominated the run time); only the words a case touched are cleared.
alignas(64) static unsigned char g_simStorage[sizeof(hexsim::Processor)];
static bool g_simStorageFresh = true;
static std::vector<uint32_t> g_dirty;
static refisa::Machine *g_refMachine = nullptr;

struct Pair {
  std::istringstream in;
  std::ostringstream out;
  hexsim::Processor *sim = nullptr;
  refisa::Machine &ref;
  std::string inputStr;
  bool stopped = false;

  static refisa::Machine &refStorage() { if (!g_refMachine) g_refMachine = new refisa::Machine(); return *g_refMachine; }

  explicit Pair(const std::string &input) : in(input), ref(refStorage()), inputStr(input) {
    sim = new (g_simStorage) hexsim::Processor(in, out);
    // C12's finding (memory not initialised by the constructor) is not C02's subject: start from zeros.
    if (g_simStorageFresh) { std::memset(sim->verifMemory(), 0, sim->verifMemorySizeWords() * 4); g_simStorageFresh = false; }
    for (uint32_t w : g_dirty) { sim->verifMemory()[w] = 0; ref.mem[w] = 0; }
    g_dirty.clear();
    sim->verifExitCode() = 0;
    sim->verifObserver = [](hexsim::Processor &) { return false; }; // stop after every instruction
    ref.reset();
    ref.io = refisa::IO();
    ref.io.in = input;
    for (int i = 0; i < 8; i++) ref.io.fileIn[i] = g_simin[i];
  }
  ~Pair() { destroySim(); }
  void destroySim() { if (sim) { sim->~Processor(); sim = nullptr; } }
  void touch(uint32_t w) { g_dirty.push_back(w); }

  size_t simConsumed() {
    if (in.eof() || in.fail()) { return inputStr.size(); }
    auto p = in.tellg();
    return p < 0 ? inputStr.size() : (size_t)p;
  }

  /// Execute one instruction on both. Returns "" if they agree (or the step is outside the defined domain),
  /// otherwise a description of the difference. `defined` says whether the step was compared.
  std::string step(bool &defined, refisa::StepInfo &si) {
    defined = false;
    uint32_t pc0 = ref.pc;
    bool ok = ref.step(&si);
    (void)ok;
    auto st = ref.status;
    bool executed = (st == refisa::Status::RUNNING || st == refisa::Status::EXITED);
    if (!executed) {
      if (st == refisa::Status::UNDEF_OPCODE || st == refisa::Status::UNDEF_OPR || st == refisa::Status::UNDEF_SVC) {
        g_undefined++;
        // informational: hexsim is expected to throw on the three undefined classes
        try { sim->verifRunning() = true; sim->run(); cls("undefined:no-throw"); }
        catch (const std::runtime_error &) { cls("undefined:throws"); }
        catch (...) { cls("undefined:other-exception"); }
      } else {
        g_outOfDomain++;
        cls(std::string("out-of-domain:") + refisa::statusName(st));
      }
      stopped = true;
      return "";
    }
    defined = true;
    g_steps++;
    if (si.store) touch(si.storeAddr);
    int rv = 0;
    try {
      sim->verifRunning() = true;
      rv = sim->run();
    } catch (const std::exception &e) {
      return std::string("hexsim threw on a defined instruction: ") + e.what();
    }
    char b[400];
    if (sim->verifPC() != ref.pc || sim->verifAreg() != ref.areg || sim->verifBreg() != ref.breg || sim->verifOreg() != ref.oreg) {
      snprintf(b, sizeof b, "registers differ after byte 0x%02x at pc=%u: hexsim pc=%u areg=0x%x breg=0x%x oreg=0x%x, ISA pc=%u areg=0x%x breg=0x%x oreg=0x%x",
               si.inst, pc0, sim->verifPC(), sim->verifAreg(), sim->verifBreg(), sim->verifOreg(), ref.pc, ref.areg, ref.breg, ref.oreg);
      return b;
    }
    if (si.store && sim->verifMemory()[si.storeAddr] != ref.mem[si.storeAddr]) {
      snprintf(b, sizeof b, "stored word differs after byte 0x%02x at pc=%u: mem[%u] hexsim=0x%x ISA=0x%x", si.inst, pc0, si.storeAddr,
               sim->verifMemory()[si.storeAddr], ref.mem[si.storeAddr]);
      return b;
    }
    if (si.isSvc) {
      if (out.str() != ref.io.out) { snprintf(b, sizeof b, "console output differs after SVC %u at pc=%u (hexsim %zu bytes, ISA %zu bytes)", si.svcNum, pc0, out.str().size(), ref.io.out.size()); return b; }
      if (simConsumed() != ref.io.inPos) { snprintf(b, sizeof b, "input position differs after SVC %u at pc=%u: hexsim %zu ISA %zu", si.svcNum, pc0, simConsumed(), ref.io.inPos); return b; }
    }
    bool simRunning = sim->verifRunning();
    if (st == refisa::Status::EXITED) {
      if (simRunning) return "ISA exited but hexsim still running";
      if ((uint32_t)rv != ref.exitValue) { snprintf(b, sizeof b, "run() returned %d, ISA exit value %u", rv, ref.exitValue); return b; }
      stopped = true;
    } else if (!simRunning) {
      return "hexsim stopped but ISA still running";
    }
    return "";
  }

  std::string compareMemory() {
    if (std::memcmp(sim->verifMemory(), ref.mem.data(), refisa::MEM_WORDS * 4) != 0) {
      for (uint32_t i = 0; i < refisa::MEM_WORDS; i++)
        if (sim->verifMemory()[i] != ref.mem[i]) {
          char b[200]; snprintf(b, sizeof b, "memory differs at word %u: hexsim=0x%x ISA=0x%x", i, sim->verifMemory()[i], ref.mem[i]); return b;
        }
    }
    return "";
  }

  /// Destroy the processor (flushes simout files) and compare file outputs.
  std::string finishFiles() {
    destroySim();
    for (int i = 0; i < 8; i++) {
      std::string name = "simout" + std::to_string(i);
      bool exists = access(name.c_str(), F_OK) == 0;
      if (ref.io.usedOut[i]) {
        if (!exists) return name + " was not created";
        if (readFileStr(name) != ref.io.fileOut[i]) return name + " content differs";
      } else if (exists) {
        return name + " created although no byte was written to that index";
      }
      if (ref.io.usedIn[i] && false) {}
    }
    clearSimout();
    return "";
  }
};

static void classifyStep(const refisa::StepInfo &si, uint32_t aregBefore, bool prefixed) {
  unsigned opc = si.inst >> 4;
  std::string k = refisa::opcodeName(opc);
  if (opc == refisa::OPR) k += std::string(":") + (si.operand == 0 ? "BRB" : si.operand == 1 ? "ADD" : si.operand == 2 ? "SUB" : "SVC");
  cls("op:" + k);
  if (prefixed) cls("prefixed:" + k);
  if (opc >= refisa::BR && opc <= refisa::BRN) cls(std::string(si.branchTaken ? "taken:" : "not-taken:") + k);
  if (opc == refisa::BRN && aregBefore == 0x80000000u) cls("BRN:areg=INT_MIN");
  if (si.isSvc) {
    cls("svc:" + std::to_string(si.svcNum));
  }
}

static std::string runGridState(const State &s, int onlyByte, bool memcmpEachByte, int *failByte) {
  Pair pr(s.input);
  bool newState = g_distinct.insert(hashMix(hashMix(hashMix(hashMix(hashMix(s.pc, s.areg), s.breg), s.oreg), s.target), s.targetVal ^ ((uint64_t)s.sp << 20))).second;
  for (int inst = 0; inst < 256; inst++) {
    if (onlyByte >= 0 && inst != onlyByte) continue;
    g_curByte = inst;
    auto pl = isagen::plant(s, (uint8_t)inst, false);
    pr.ref.pc = pl.pc; pr.ref.areg = pl.areg; pr.ref.breg = pl.breg; pr.ref.oreg = pl.oreg;
    pr.ref.status = refisa::Status::RUNNING;
    pr.sim->verifPC() = pl.pc; pr.sim->verifAreg() = pl.areg; pr.sim->verifBreg() = pl.breg; pr.sim->verifOreg() = pl.oreg;
    for (auto &w : pl.words) if (w.first < refisa::MEM_WORDS) { pr.ref.mem[w.first] = w.second; pr.sim->verifMemory()[w.first] = w.second; pr.touch(w.first); }
    uint32_t before = pl.areg;
    bool defined; refisa::StepInfo si;
    std::string d = pr.step(defined, si);
    if (!d.empty()) { *failByte = inst; return d; }
    if (defined) {
      g_defined++;
      classifyStep(si, before, pl.oreg != 0);
      uint64_t h = hashMix(hashMix(hashMix(hashMix(inst, pl.pc), pl.areg), pl.breg), pl.oreg);
      if (newState) g_distinctSteps++;
      (void)h;
      if (si.isSvc) {
        uint32_t stream = si.svcNum == 1 ? s.spVals[2] : s.spVals[1];
        if (si.svcNum != 0) cls((int32_t)stream < 256 ? "stream:console" : "stream:file");
        if (si.svcNum == 2 && pr.ref.io.eofReads) cls("read:end-of-input");
      }
      if ((uint64_t)pl.pc + 1 + (uint64_t)(pl.oreg | (inst & 15)) > 0xFFFFFFFFull) cls("wraparound:pc+oreg");
    }
    if (memcmpEachByte) { d = pr.compareMemory(); if (!d.empty()) { *failByte = inst; return d; } }
  }
  std::string d = pr.compareMemory();
  if (!d.empty()) { *failByte = -1; return d + " (after the 256-byte sweep of this state)"; }
  d = pr.finishFiles();
  if (!d.empty()) { *failByte = -1; return d; }
  return "";
}

static std::string runImage(const std::string &file, const std::string &input, uint64_t maxSteps, uint64_t *stepsOut, bool classify) {
  // through the real loader
  { std::ofstream f("c02image.bin", std::ios::binary); f << file; }
  Pair pr(input);
  pr.sim->load("c02image.bin");
  long words = pr.ref.loadImage(file);
  if (words < 0) return "";
  for (long w = 0; w < words; w++) pr.touch((uint32_t)w);
  std::string d = pr.compareMemory();
  if (!d.empty()) return "after load: " + d;
  uint64_t n = 0;
  bool prevPrefix = false;
  while (!pr.stopped && n < maxSteps) {
    bool defined; refisa::StepInfo si;
    uint32_t before = pr.ref.areg;
    d = pr.step(defined, si);
    if (!d.empty()) { char b[64]; snprintf(b, sizeof b, " (step %" PRIu64 ")", n); return d + b; }
    if (!defined) break;
    if (classify) classifyStep(si, before, prevPrefix);
    prevPrefix = (si.inst >> 4) >= refisa::PFIX;
    n++;
  }
  *stepsOut = n;
  d = pr.compareMemory();
  if (!d.empty()) return d + " (end of run)";
  return pr.finishFiles();
}

static void writeStats(bool ok) {
  const char *out = getenv("C02_OUT");
  if (!out) return;
  FILE *f = fopen(out, "w");
  if (!f) return;
  vjson::Obj o;
  o.num("cases", g_cases); o.num("steps", g_steps); o.num("defined_grid_steps", g_defined); o.num("undefined", g_undefined);
  o.num("out_of_domain", g_outOfDomain); o.num("nontrivial_sequences", g_nontrivialSeq); o.num("distinct", g_distinctSteps);
  vjson::Obj c; for (auto &kv : g_classes) c.num(kv.first, kv.second); o.raw("classes", c.done());
  vjson::Arr s; for (auto &x : g_samples) s.raw(x); o.raw("samples", s.done());
  o.boolean("ok", ok);
  fprintf(f, "%s\n", o.done().c_str());
  fclose(f);
}

static std::string hexDecode(const std::string &h) {
  std::string r;
  for (size_t i = 0; i + 1 < h.size(); i += 2) r.push_back((char)strtoul(h.substr(i, 2).c_str(), nullptr, 16));
  return r;
}

int main(int argc, char **argv) {
  if (argc < 2) { fprintf(stderr, "usage: c02 grid|seq|image|state ...\n"); return 2; }
  std::string mode = argv[1];
  g_failFile = getenv("C02_FAIL");
  if (const char *d = getenv("C02_DIR")) { if (chdir(d) != 0) { perror("chdir"); return 2; } }
  setupSimFiles();
  clearSimout();
  __sanitizer_set_death_callback(onDeath);
  signal(SIGABRT, [](int) { onDeath(); });   // UBSan's runtime aborts without going through ASan's callback
  bool ok = true;
  if (mode == "grid") {
    ok = rc::check("C02 grid: hexsim step == ISA step for every instruction byte", [&]() {
      State s = *isagen::genState(false);
      g_cases++;
      g_curKind = "grid"; g_curState = isagen::toJson(s);
      if (g_samples.size() < 4 && g_cases % 40 == 5) g_samples.push_back(isagen::toJson(s));
      int failByte = -1;
      std::string d = runGridState(s, -1, false, &failByte);
      if (!d.empty()) {
        vjson::Obj o; o.str("kind", "grid"); o.raw("state", isagen::toJson(s)); o.snum("byte", failByte); o.str("diff", d);
        recordFail(o.done());
      }
      RC_ASSERT(d.empty());
    });
  } else if (mode == "seq") {
    ok = rc::check("C02 sequences: whole run is the ISA-defined trace", [&]() {
      auto q = *isagen::genSequence();
      g_cases++;
      auto bytes = isagen::assembleSequence(q);
      std::string file;
      uint32_t words = bytes.size() / 4;
      for (int i = 0; i < 4; i++) file.push_back((char)((words >> (8 * i)) & 0xFF));
      file.append(bytes.begin(), bytes.end());
      if (g_samples.size() < 4 && g_cases % 50 == 7) g_samples.push_back(isagen::toJson(q));
      g_curKind = "image"; g_curFile = file; g_curInput = q.input; g_curMaxSteps = 400;
      uint64_t steps = 0;
      std::string d = runImage(file, q.input, 400, &steps, true);
      if (steps >= 8) { g_nontrivialSeq++; uint64_t h = 0; for (auto c : bytes) h = hashMix(h, c); if (g_distinct.insert(h).second) g_distinctSteps++; }
      if (!d.empty()) {
        vjson::Obj o; o.str("kind", "image"); o.hex("file", file); o.hex("input", q.input); o.str("diff", d); o.num("max_steps", 400);
        recordFail(o.done());
      }
      RC_ASSERT(d.empty());
    });
  } else if (mode == "image" && argc >= 3) {
    std::string file = readFileStr(argv[2]);
    std::string input = argc >= 4 ? readFileStr(argv[3]) : "";
    uint64_t maxSteps = argc >= 5 ? strtoull(argv[4], nullptr, 10) : 50000000ull;
    uint64_t steps = 0;
    g_cases++;
    g_curKind = "image"; g_curInput = input; g_curMaxSteps = maxSteps;
    if (file.size() < 20000) g_curFile = file; else g_curPath = argv[2];
    std::string d = runImage(file, input, maxSteps, &steps, true);
    if (steps >= 8) { g_nontrivialSeq++; uint64_t h = 0; for (auto c : file) h = hashMix(h, (unsigned char)c); if (g_distinct.insert(h).second) g_distinctSteps++; }
    if (!d.empty()) {
      vjson::Obj o; o.str("kind", "image"); o.hex("file", file.size() < 20000 ? file : std::string()); o.str("path", argv[2]); o.hex("input", input); o.str("diff", d);
      recordFail(o.done());
      ok = false;
    }
  } else if (mode == "state" && argc >= 17) {
    State s;
    uint32_t v[13];
    for (int i = 0; i < 13; i++) v[i] = (uint32_t)strtoull(argv[2 + i], nullptr, 10);
    s.pc = v[0]; s.areg = v[1]; s.breg = v[2]; s.oreg = v[3]; s.target = v[4]; s.targetVal = v[5]; s.fetchWord = v[6]; s.sp = v[7];
    s.spVals[0] = v[8]; s.spVals[1] = v[9]; s.spVals[2] = v[10]; s.svcNum = v[11];
    s.input = hexDecode(std::string(argv[15]).substr(1)); // "x<hex>"
    s.steer = v[12] != 0;
    int byte = atoi(argv[16]);
    int failByte = -1;
    g_cases++;
    g_curKind = "grid"; g_curState = isagen::toJson(s);
    std::string d = runGridState(s, byte, true, &failByte);
    if (!d.empty()) {
      vjson::Obj o; o.str("kind", "grid"); o.raw("state", isagen::toJson(s)); o.snum("byte", failByte); o.str("diff", d);
      recordFail(o.done());
      printf("FAIL %s\n", d.c_str());
      ok = false;
    }
  } else { fprintf(stderr, "bad mode\n"); return 2; }
  writeStats(ok);
  return ok ? 0 : 1;
}
