// Minimal JSON object writer used by the C++ harnesses.
#ifndef VERIF_VJSON_HPP
#define VERIF_VJSON_HPP
#include <cstdint>
#include <cstdio>
#include <string>

namespace vjson {

inline std::string escape(const std::string &s) {
  std::string r;
  for (unsigned char c : s) {
    if (c == '"' || c == '\\') { r += '\\'; r += (char)c; }
    else if (c == '\n') r += "\\n";
    else if (c == '\t') r += "\\t";
    else if (c == '\r') r += "\\r";
    else if (c < 0x20 || c >= 0x7F) { char b[8]; snprintf(b, sizeof b, "\\u%04x", c); r += b; }
    else r += (char)c;
  }
  return r;
}

inline std::string hexOf(const std::string &s) {
  static const char *d = "0123456789abcdef";
  std::string r;
  r.reserve(s.size() * 2);
  for (unsigned char c : s) { r += d[c >> 4]; r += d[c & 15]; }
  return r;
}

class Obj {
  std::string s = "{";
  bool first = true;
  void key(const std::string &k) {
    if (!first) s += ",";
    first = false;
    s += "\"" + escape(k) + "\":";
  }
public:
  void str(const std::string &k, const std::string &v) { key(k); s += "\"" + escape(v) + "\""; }
  void hex(const std::string &k, const std::string &v) { key(k); s += "\"" + hexOf(v) + "\""; }
  void num(const std::string &k, uint64_t v) { key(k); s += std::to_string(v); }
  void snum(const std::string &k, int64_t v) { key(k); s += std::to_string(v); }
  void boolean(const std::string &k, bool v) { key(k); s += v ? "true" : "false"; }
  void raw(const std::string &k, const std::string &v) { key(k); s += v; }
  std::string done() { return s + "}"; }
};

class Arr {
  std::string s = "[";
  bool first = true;
public:
  void raw(const std::string &v) { if (!first) s += ","; first = false; s += v; }
  void num(uint64_t v) { raw(std::to_string(v)); }
  void str(const std::string &v) { raw("\"" + escape(v) + "\""); }
  std::string done() { return s + "]"; }
};

} // namespace vjson
#endif
