// C04 (sampled half): rapidcheck over small programs of immediate instructions.
// Each case is a list of (mnemonic, spelling, value); the emitted image must
// decode, line by line, to the same opcode and value with the ISA prefix rule.
// Environment: RC_PARAMS (seed, max_success, max_size), C04_OUT (stats JSON),
// C04_FAIL (file that receives the last failing case, i.e. the shrunk one).
#include <cinttypes>
#include <cstdio>
#include <cstdlib>
#include <map>
#include <set>
#include <string>
#include <vector>

#include <rapidcheck.h>

#include "crashdump.hpp"
#include "inproc.hpp"
#include "refisa.hpp"
#include "vjson.hpp"

struct Item { unsigned mnem; bool negative; uint32_t value; };

static uint64_t cases = 0, lines = 0, nontrivialLines = 0;
static std::set<std::string> distinct;
static uint64_t hist[9] = {0};
static std::vector<std::string> samples;

static std::string literalOf(const Item &it) {
  if (it.negative) return "-" + std::to_string((uint64_t)0x100000000ull - it.value);
  return std::to_string(it.value);
}

static std::string textOf(const std::vector<Item> &p) {
  std::string t;
  for (auto &it : p) { t += inproc::IMM_MNEMONICS[it.mnem]; t += ' '; t += literalOf(it); t += '\n'; }
  return t;
}

static rc::Gen<uint32_t> genValue() {
  using namespace rc;
  return gen::resize(100, gen::oneOf(
      gen::arbitrary<uint32_t>(),
      // +/-16^k and +/-2^k neighbourhoods
      gen::apply([](unsigned k, int d, bool neg) { uint32_t b = (k >= 32) ? 0u : (1u << k); uint32_t v = b + (uint32_t)d; return neg ? (uint32_t)(0 - v) : v; },
                 gen::inRange(0u, 33u), gen::inRange(-2, 3), gen::arbitrary<bool>()),
      gen::element<uint32_t>(0u, 1u, 15u, 16u, 0xFFFFFFFFu, 0xFFFFFFF0u, 0xFFFFFFEFu, 0x7FFFFFFFu, 0x80000000u, 0x80000001u, 0xFFFFFF00u, 0xFFFFFEFFu)));
}

static rc::Gen<Item> genItem() {
  using namespace rc;
  return gen::apply([](unsigned m, bool neg, uint32_t v) {
    Item it{m, neg, v};
    // "-n" is a signed decimal: only values in [-2^31, -1] have that spelling.
    if (it.negative && v < 0x80000000u) it.negative = false;
    return it;
  }, gen::resize(100, gen::inRange(0u, 12u)), gen::arbitrary<bool>(), genValue());
}

static bool checkProgram(const std::vector<Item> &p, std::string &why) {
  auto r = inproc::assemble(textOf(p));
  if (!r.ok) { why = "rejected: " + r.errWhat; return false; }
  const uint8_t *buf = (const uint8_t *)r.image.data();
  size_t size = r.image.size(), pos = 0;
  for (auto &it : p) {
    auto d = refisa::decodeAt(buf, size, pos);
    char b[200];
    if (d.length == 0) { why = "image ends inside an encoding"; return false; }
    if (d.opcode != inproc::IMM_OPCODES[it.mnem] || d.operand != it.value) {
      snprintf(b, sizeof b, "%s %s decodes to opcode %X operand 0x%08x (%u bytes)", inproc::IMM_MNEMONICS[it.mnem], literalOf(it).c_str(), d.opcode, d.operand, d.length);
      why = b; return false;
    }
    lines++;
    hist[d.prefixes > 8 ? 8 : d.prefixes]++;
    if (d.prefixes >= 1) { nontrivialLines++; distinct.insert(std::string(inproc::IMM_MNEMONICS[it.mnem]) + " " + literalOf(it)); }
    pos += d.length;
  }
  if (size % 4 != 0 || size - pos >= 4) { why = "bad padding"; return false; }
  for (; pos < size; pos++) if (buf[pos] != 0) { why = "non-zero padding"; return false; }
  return true;
}

int main() {
  const char *failFile = getenv("C04_FAIL");
  static std::string cur;
  if (getenv("C04_CRASH")) crashdump::install(getenv("C04_CRASH"));
  bool ok = rc::check("C04 prefix encoding round-trips", [&]() {
    auto n = *rc::gen::inRange<size_t>(1, 24);
    auto prog = *rc::gen::container<std::vector<Item>>(n, genItem());
    cases++;
    cur = textOf(prog);
    crashdump::current(cur);
    if (samples.size() < 6 && cases % 50 == 3) samples.push_back(textOf(prog));
    std::string why;
    bool good = checkProgram(prog, why);
    if (!good && failFile) {
      FILE *f = fopen(failFile, "w");
      if (f) { vjson::Obj o; o.str("text", textOf(prog)); o.str("why", why); fprintf(f, "%s\n", o.done().c_str()); fclose(f); }
    }
    RC_ASSERT(good);
  });
  if (const char *out = getenv("C04_OUT")) {
    FILE *f = fopen(out, "w");
    if (f) {
      vjson::Obj o;
      o.num("cases", cases); o.num("lines", lines); o.num("nontrivial_lines", nontrivialLines); o.num("distinct_nontrivial", distinct.size());
      vjson::Arr h; for (int i = 0; i < 9; i++) h.num(hist[i]); o.raw("prefix_hist", h.done());
      vjson::Arr s; for (auto &x : samples) s.str(x); o.raw("samples", s.done());
      o.boolean("ok", ok);
      fprintf(f, "%s\n", o.done().c_str()); fclose(f);
    }
  }
  return ok ? 0 : 1;
}
