// In-process access to the repository's assembler through its *text* interface
// (Lexer::loadBuffer -> Parser::parseProgram -> CodeGen -> emitProgramBin).
#ifndef VERIF_INPROC_HPP
#define VERIF_INPROC_HPP
#include <cassert>
#include <sstream>
#include <string>

#include "hexasm.hpp"

namespace inproc {

struct AsmResult {
  bool ok = false;
  std::string image;     // program bytes (without the length word)
  std::string listing;   // emitProgramText
  std::string errType;   // "hexutil::Error" / "std::exception"
  std::string errWhat;
  bool errHasLocation = false;
};

inline AsmResult assemble(const std::string &text, bool wantListing = false) {
  AsmResult r;
  try {
    hexasm::Lexer lexer;
    hexasm::Parser parser(lexer);
    lexer.loadBuffer(text);
    auto program = parser.parseProgram();
    hexasm::CodeGen codeGen(program);
    if (wantListing) {
      std::ostringstream ls;
      codeGen.emitProgramText(ls);
      r.listing = ls.str();
    }
    std::ostringstream os;
    codeGen.emitProgramBin(os);
    r.image = os.str();
    r.ok = true;
  } catch (const hexutil::Error &e) {
    r.errType = "hexutil::Error";
    r.errWhat = e.what();
    r.errHasLocation = e.hasLocation();
  } catch (const std::exception &e) {
    r.errType = "std::exception";
    r.errWhat = e.what();
  }
  return r;
}

static const char *const IMM_MNEMONICS[12] = {"LDAM", "LDBM", "STAM", "LDAC", "LDBC", "LDAP",
                                              "LDAI", "LDBI", "STAI", "BR",   "BRZ",  "BRN"};
static const unsigned IMM_OPCODES[12] = {0x0, 0x1, 0x2, 0x3, 0x4, 0x5, 0x6, 0x7, 0x8, 0x9, 0xA, 0xB};

} // namespace inproc
#endif
