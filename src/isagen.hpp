// G-ISA: rapidcheck generators for architectural states and instruction
// sequences, shared by the step-level lock-step harnesses (C02, C03).
#ifndef VERIF_ISAGEN_HPP
#define VERIF_ISAGEN_HPP
#include <cstdint>
#include <cstdio>
#include <string>
#include <vector>

#include <rapidcheck.h>

#include "refisa.hpp"
#include "vjson.hpp"

namespace isagen {

using refisa::MEM_BYTES;
using refisa::MEM_WORDS;

/// Corner-heavy 32-bit register value.
inline rc::Gen<uint32_t> genReg() {
  using namespace rc;
  return gen::resize(100, gen::oneOf(
      gen::element<uint32_t>(0u, 1u, 2u, 3u, 15u, 16u, 0xFFu, 0x100u, 0x7FFFFFFFu, 0x80000000u, 0x80000001u, 0xFFFFFF00u,
                             0xFFFFFFF0u, 0xFFFFFFFFu, 0xFFFFFFFEu, 199999u, 200000u, 799999u, 800000u, 0x1FFFFFu, 0x200000u),
      gen::arbitrary<uint32_t>(),
      gen::map(gen::inRange<uint32_t>(0, MEM_WORDS), [](uint32_t v) { return v; }),
      gen::map(gen::inRange<uint32_t>(0, 64), [](uint32_t v) { return v; }),
      gen::map(gen::inRange<uint32_t>(0, 64), [](uint32_t v) { return (uint32_t)(0 - v); })));
}

/// Operand-register value. In the RTL domain only values reachable from reset
/// are drawn: 0, x<<4, or 0xFFFFFF00|x<<4 (low nibble always zero).
inline rc::Gen<uint32_t> genOreg(bool rtlDomain) {
  using namespace rc;
  auto reachable = gen::oneOf(
      gen::just<uint32_t>(0u),
      gen::map(gen::arbitrary<uint32_t>(), [](uint32_t v) { return v << 4; }),
      gen::map(gen::inRange<uint32_t>(0, 4096), [](uint32_t v) { return v << 4; }),
      gen::map(gen::inRange<uint32_t>(0, 16), [](uint32_t v) { return 0xFFFFFF00u | (v << 4); }),
      gen::map(gen::arbitrary<uint32_t>(), [](uint32_t v) { return (0xFFFFFF00u | (v & 0xF0)) << ((v >> 8) % 7 * 4); }));
  if (rtlDomain) return gen::resize(100, reachable);
  return gen::resize(100, gen::oneOf(reachable, genReg(), gen::map(gen::inRange<uint32_t>(0, 16), [](uint32_t v) { return v; })));
}

/// One generated architectural state for the byte grid.
struct State {
  uint32_t pc;        // byte address of the instruction, < 800000
  uint32_t areg, breg, oreg;
  uint32_t target;    // word the memory instructions are steered to, (target|15) < 200000
  uint32_t targetVal; // its content
  uint32_t fetchWord; // other bytes of the word fetched from
  uint32_t sp;        // mem[1], sp+3 < 200000
  uint32_t spVals[3]; // mem[sp+1..sp+3]
  uint32_t svcNum;    // areg used when the byte is SVC: 0..2 (3 rarely: undefined)
  std::string input;  // console input
  bool steer;         // derive the base register from `target` for indexed forms
};

inline rc::Gen<uint32_t> genStream() {
  using namespace rc;
  return gen::resize(100, gen::oneOf(gen::element<uint32_t>(0u, 1u, 255u, 256u, 257u, 0x200u, 0x2FFu, 0x700u, 0x7FFu, 0x800u, 0x8FFu, 0x10100u, 0xFFFFFFFFu, 0x80000000u, 0x7FFFFFFFu),
                                     gen::arbitrary<uint32_t>()));
}

inline rc::Gen<State> genState(bool rtlDomain) {
  using namespace rc;
  return gen::exec([rtlDomain]() {
    State s;
    s.pc = *gen::resize(100, gen::oneOf(gen::inRange<uint32_t>(0, MEM_BYTES), gen::inRange<uint32_t>(0, 64),
                                        gen::element<uint32_t>(0u, 3u, 4u, 7u, MEM_BYTES - 1, MEM_BYTES - 2, MEM_BYTES - 4, MEM_BYTES - 5)));
    s.areg = *genReg();
    s.breg = *genReg();
    s.oreg = *genOreg(rtlDomain);
    s.target = *gen::resize(100, gen::oneOf(gen::inRange<uint32_t>(0, MEM_WORDS - 16), gen::inRange<uint32_t>(0, 32),
                                            gen::inRange<uint32_t>(MEM_WORDS - 48, MEM_WORDS - 16)));
    s.targetVal = *genReg();
    s.fetchWord = *gen::arbitrary<uint32_t>();
    s.sp = *gen::resize(100, gen::oneOf(gen::inRange<uint32_t>(2, MEM_WORDS - 4), gen::inRange<uint32_t>(MEM_WORDS - 16, MEM_WORDS - 3),
                                        gen::element<uint32_t>(0u, 1u, MEM_WORDS - 4)));
    s.spVals[0] = *genReg();
    s.spVals[1] = *gen::resize(100, gen::oneOf(genStream(), genReg()));   // sp+2: exit value / write byte / read stream
    s.spVals[2] = *genStream();                                           // sp+3: write stream
    s.svcNum = *gen::resize(100, gen::weightedElement<uint32_t>({{10, 0u}, {10, 1u}, {10, 2u}, {1, 3u}, {1, 0xFFFFFFFFu}}));
    auto n = *gen::resize(100, gen::inRange<size_t>(0, 4));
    s.input = *gen::container<std::string>(n, gen::arbitrary<char>());
    s.steer = *gen::resize(100, gen::weightedElement<bool>({{4, true}, {1, false}}));
    return s;
  });
}

inline std::string toJson(const State &s) {
  vjson::Obj o;
  o.num("pc", s.pc); o.num("areg", s.areg); o.num("breg", s.breg); o.num("oreg", s.oreg);
  o.num("target", s.target); o.num("targetVal", s.targetVal); o.num("fetchWord", s.fetchWord);
  o.num("sp", s.sp);
  vjson::Arr a; for (int i = 0; i < 3; i++) a.num(s.spVals[i]); o.raw("spVals", a.done());
  o.num("svcNum", s.svcNum); o.hex("input", s.input); o.boolean("steer", s.steer);
  return o.done();
}

/// The concrete pre-state for executing instruction byte `inst` in generated state `s`.
struct Planted {
  uint32_t pc, areg, breg, oreg;
  // (address, value) words to plant; later entries win.
  std::vector<std::pair<uint32_t, uint32_t>> words;
};

inline Planted plant(const State &s, uint8_t inst, bool rtlDomain) {
  Planted p;
  p.pc = s.pc; p.areg = s.areg; p.breg = s.breg; p.oreg = s.oreg;
  unsigned opc = inst >> 4, nib = inst & 15;
  uint32_t opnd = p.oreg | nib;
  switch (opc) {
  case refisa::LDAM: case refisa::LDBM: case refisa::STAM:
    if (s.steer) p.oreg = rtlDomain ? (s.target & ~15u) : s.target;
    break;
  case refisa::LDAI:
    if (s.steer) p.areg = s.target - opnd;
    break;
  case refisa::LDBI: case refisa::STAI:
    if (s.steer) p.breg = s.target - opnd;
    break;
  case refisa::OPR:
    if (s.steer) {
      // keep the accumulated operand inside 0..3 most of the time
      if (rtlDomain) p.oreg = 0; else p.oreg = s.oreg & 3;
      if (((p.oreg | nib) == refisa::SVC)) p.areg = s.svcNum;
      if (rtlDomain && (p.oreg | nib) == refisa::BRB) p.breg = s.breg % MEM_BYTES;
    }
    break;
  case refisa::BR: case refisa::BRZ: case refisa::BRN: case refisa::LDAP:
    if (rtlDomain && s.steer) {
      // keep pc+1+operand inside the byte range both implementations provide
      uint32_t dest = s.targetVal % MEM_BYTES;
      uint32_t want = dest - (s.pc + 1);
      p.oreg = want & ~15u;             // reachable shape: low nibble zero
      // the nibble of the instruction is fixed by `inst`; dest moves by at most 15 bytes
      if ((uint64_t)(s.pc + 1) + (int32_t)(p.oreg | nib) >= MEM_BYTES) p.oreg = 0;
    }
    break;
  default: break;
  }
  uint32_t fw = s.fetchWord;
  unsigned sh = (s.pc & 3) * 8;
  fw = (fw & ~(0xFFu << sh)) | ((uint32_t)inst << sh);
  p.words.push_back({s.target | 15u, s.targetVal ^ 0x5A5A5A5Au});
  for (unsigned i = 0; i < 16; i++) p.words.push_back({(s.target & ~15u) + i, s.targetVal + i * 0x01010101u});
  p.words.push_back({s.target, s.targetVal});
  p.words.push_back({1, s.sp});
  if (s.sp + 3 < MEM_WORDS) for (int i = 0; i < 3; i++) p.words.push_back({s.sp + 1 + i, s.spVals[i]});
  p.words.push_back({s.pc >> 2, fw});
  return p;
}

// ---------------------------------------------------------------------------
// Instruction sequences
// ---------------------------------------------------------------------------

struct SeqItem {
  uint8_t kind;     // 0 = immediate instruction with prefix chain, 1 = OPR op, 2 = raw byte, 3 = syscall macro
  uint8_t opc;      // opcode (kind 0), opr (kind 1), raw byte (kind 2), syscall number (kind 3)
  uint32_t value;   // operand (kind 0); byte value / exit value (kind 3)
  uint32_t stream;  // kind 3
  uint8_t extraPrefixes; // redundant leading PFIX 0 bytes (kind 0)
};

struct Sequence {
  uint32_t sp;
  std::vector<SeqItem> items;
  std::string input;
};

/// Encode `value` for opcode `opc` with the ISA prefix scheme (own encoder, independent of hexasm).
inline void encodeImm(std::vector<uint8_t> &out, unsigned opc, uint32_t value, unsigned extra = 0) {
  // choose the shortest positive or negative chain
  int32_t sv = (int32_t)value;
  std::vector<uint8_t> nibs; // most significant first, final nibble last
  if (sv >= 0 || true) {
    // positive chain length
    unsigned n = 1; while (n < 8 && (value >> (4 * n)) != 0) n++;
    unsigned best = n; bool neg = false;
    if (sv < 0) {
      unsigned m = 2; while (m < 8 && (value >> (4 * m)) != (0xFFFFFFFFu >> (4 * m))) m++;
      if (m <= best) { best = m; neg = true; }
    }
    for (unsigned i = 0; i < extra && best + i < 8 && !neg; i++) out.push_back(0xE0);
    for (unsigned i = best; i-- > 1;) {
      uint8_t nb = (value >> (4 * i)) & 15;
      bool first = (i == best - 1);
      out.push_back((uint8_t)(((first && neg) ? 0xF0 : 0xE0) | nb));
    }
    out.push_back((uint8_t)((opc << 4) | (value & 15)));
  }
}

inline rc::Gen<SeqItem> genSeqItem() {
  using namespace rc;
  return gen::exec([]() {
    SeqItem it{0, 0, 0, 0, 0};
    unsigned k = *gen::resize(100, gen::weightedElement<unsigned>({{14, 0u}, {4, 1u}, {1, 2u}, {5, 3u}}));
    it.kind = (uint8_t)k;
    if (k == 0) {
      it.opc = *gen::resize(100, gen::element<uint8_t>(0, 1, 2, 3, 3, 4, 4, 5, 6, 7, 8, 9, 0xA, 0xB));
      bool mem = it.opc <= 2;
      bool idx = it.opc >= 6 && it.opc <= 8;
      bool br = it.opc >= 9 && it.opc <= 0xB;
      if (mem) it.value = *gen::resize(100, gen::oneOf(gen::inRange<uint32_t>(1, 64), gen::inRange<uint32_t>(1000, 1200), gen::inRange<uint32_t>(MEM_WORDS - 32, MEM_WORDS), gen::just<uint32_t>(1)));
      else if (idx) it.value = *gen::resize(100, gen::oneOf(gen::inRange<uint32_t>(0, 8), gen::map(gen::inRange<uint32_t>(1, 6), [](uint32_t v) { return (uint32_t)(0 - v); })));
      else if (br) it.value = *gen::resize(100, gen::oneOf(gen::inRange<uint32_t>(0, 12), gen::map(gen::inRange<uint32_t>(1, 20), [](uint32_t v) { return (uint32_t)(0 - v); })));
      else it.value = *gen::resize(100, gen::oneOf(genReg(), gen::inRange<uint32_t>(0, 300), gen::inRange<uint32_t>(1000, 1200)));
      it.extraPrefixes = *gen::resize(100, gen::weightedElement<uint8_t>({{12, 0}, {2, 1}, {1, 3}, {1, 6}}));
    } else if (k == 1) {
      it.opc = *gen::resize(100, gen::element<uint8_t>(1, 2, 1, 2, 0));
    } else if (k == 2) {
      it.opc = *gen::arbitrary<uint8_t>();
    } else {
      it.opc = *gen::resize(100, gen::weightedElement<uint8_t>({{1, 0}, {6, 1}, {6, 2}}));
      it.value = *gen::resize(100, gen::oneOf(gen::inRange<uint32_t>(0, 256), genReg()));
      it.stream = *genStream();
    }
    return it;
  });
}

inline rc::Gen<Sequence> genSequence() {
  using namespace rc;
  return gen::exec([]() {
    Sequence s;
    s.sp = *gen::resize(100, gen::oneOf(gen::inRange<uint32_t>(150000, MEM_WORDS - 4), gen::inRange<uint32_t>(2000, 3000)));
    auto n = *gen::inRange<size_t>(1, 120);
    s.items = *gen::container<std::vector<SeqItem>>(n, genSeqItem());
    auto m = *gen::resize(100, gen::inRange<size_t>(0, 6));
    s.input = *gen::container<std::string>(m, gen::arbitrary<char>());
    return s;
  });
}

/// Assemble a sequence into image bytes: word 0 = BR over word 1 (the stack
/// pointer), then the items, then an exit.
inline std::vector<uint8_t> assembleSequence(const Sequence &s, bool avoidSharedDirection = true) {
  std::vector<uint8_t> b;
  b.push_back(0x97); b.push_back(0); b.push_back(0); b.push_back(0); // BR 7 -> byte 8
  for (int i = 0; i < 4; i++) b.push_back((s.sp >> (8 * i)) & 0xFF);
  bool usedIn[8] = {0}, usedOut[8] = {0};
  for (auto &it : s.items) {
    switch (it.kind) {
    case 0: encodeImm(b, it.opc, it.value, it.extraPrefixes); break;
    case 1: b.push_back(0xD0 | it.opc); break;
    case 2: b.push_back(it.opc); break;
    case 3: {
      uint32_t stream = it.stream;
      if ((int32_t)stream >= 256 && avoidSharedDirection) {
        unsigned f = (stream >> 8) & 7;
        // one file index is used in one direction only (see DESIGN: shared connected[] flag)
        if (it.opc == 1) { if (usedIn[f]) stream = 0; else usedOut[f] = true; }
        if (it.opc == 2) { if (usedOut[f]) stream = 0; else usedIn[f] = true; }
      }
      b.push_back(0x11);                            // LDBM 1   breg = sp
      if (it.opc == 0) { encodeImm(b, refisa::LDAC, it.value); b.push_back(0x82); }          // STAI 2
      else if (it.opc == 1) { encodeImm(b, refisa::LDAC, it.value); b.push_back(0x82); encodeImm(b, refisa::LDAC, stream); b.push_back(0x83); }
      else { encodeImm(b, refisa::LDAC, stream); b.push_back(0x82); }
      b.push_back(0x30 | it.opc);                   // LDAC n
      b.push_back(0xD3);                            // OPR SVC
      if (it.opc == 2) { b.push_back(0x01); b.push_back(0x61); } // LDAM 1; LDAI 1  (areg = value read)
      break;
    }
    }
  }
  // final exit
  b.push_back(0x11); b.push_back(0x82); b.push_back(0x30); b.push_back(0xD3);
  while (b.size() % 4) b.push_back(0);
  return b;
}

inline std::string toJson(const Sequence &s) {
  vjson::Obj o;
  o.num("sp", s.sp);
  std::vector<uint8_t> b = assembleSequence(s);
  o.hex("image", std::string(b.begin(), b.end()));
  o.hex("input", s.input);
  o.num("items", s.items.size());
  return o.done();
}

} // namespace isagen
#endif
