// In-process runner of the repository's compiler and simulator (sanitizer build).
//   xtool run SRC [--in FILE] [--max-cycles N] [--ref-steps N] [--trace FILE] [--no-sim]
//       compile SRC with xcmp::Driver::run(EMIT_BINARY, text, false, path); run the image on the ISA
//       reference (range-checked, with the C08 monitor), and if that stays in range, on
//       hexsim::Processor::run().  One JSON object on stdout.
//   xtool det SRC [--other SRC2]
//       determinism: compile SRC under heap fill 0x00, 0xA5, 0xFF, after compiling SRC2 in the same
//       process, and once more; report whether binaries, -S listings and --tree dumps are all equal.
//   xtool accept SRC
//       C09 structured half: every DriverAction on SRC; accepted or cleanly rejected.
#include <cassert>
#include <cstdio>
#include <cstdlib>
#include <fstream>
#include <iostream>
#include <sstream>
#include <string>
#include <unistd.h>
#include <vector>

#include "fillnew.hpp"

#include "hex.hpp"
#include "hexasm.hpp"
#include "hexsim.hpp"
#include "xcmp.hpp"

#include "refisa.hpp"
#include "refmon.hpp"
#include "vjson.hpp"

static std::string slurp(const std::string &p, bool *ok = nullptr) {
  std::ifstream f(p, std::ios::binary);
  if (ok) *ok = (bool)f;
  std::ostringstream ss; ss << f.rdbuf(); return ss.str();
}

struct Compile {
  bool ok = false;
  std::string errType, errWhat, errLoc;
  std::string file;     // binary file contents
  std::string text;     // stdout-type output of the action
};

static Compile compile(const std::string &src, xcmp::DriverAction action, const std::string &outPath) {
  Compile c;
  unlink(outPath.c_str());
  std::ostringstream out;
  try {
    xcmp::Driver driver(out);
    int rc = driver.run(action, src, false, outPath);
    c.ok = rc == 0;
    if (!c.ok) { c.errType = "return"; c.errWhat = "Driver::run returned " + std::to_string(rc); }
  } catch (const hexutil::Error &e) {
    c.errType = "hexutil::Error"; c.errWhat = e.what(); c.errLoc = e.hasLocation() ? e.getLocation().str() : "";
  } catch (const std::exception &e) {
    c.errType = "std::exception"; c.errWhat = e.what();
  }
  c.text = out.str();
  if (action == xcmp::DriverAction::EMIT_BINARY && access(outPath.c_str(), F_OK) == 0) c.file = slurp(outPath);
  return c;
}

static int cmdRun(int argc, char **argv) {
  std::string src, inFile, traceFile;
  uint64_t maxCycles = 5000000, refSteps = 5000000;
  bool noSim = false;
  for (int i = 2; i < argc; i++) {
    std::string a = argv[i];
    if (a == "--in" && i + 1 < argc) inFile = argv[++i];
    else if (a == "--max-cycles" && i + 1 < argc) maxCycles = strtoull(argv[++i], 0, 10);
    else if (a == "--ref-steps" && i + 1 < argc) refSteps = strtoull(argv[++i], 0, 10);
    else if (a == "--trace" && i + 1 < argc) traceFile = argv[++i];
    else if (a == "--no-sim") noSim = true;
    else src = a;
  }
  std::string text = slurp(src);
  std::string input = inFile.empty() ? std::string() : slurp(inFile);
  vjson::Obj o;
  Compile c = compile(text, xcmp::DriverAction::EMIT_BINARY, "xtool.out.bin");
  o.boolean("compiled", c.ok);
  o.str("err_type", c.errType); o.str("err_what", c.errWhat); o.str("err_loc", c.errLoc);
  if (!c.ok) { printf("%s\n", o.done().c_str()); return 0; }
  o.num("file_bytes", c.file.size());
  // --- ISA reference with range checks and the C08 monitor
  refisa::Machine m;
  m.io.in = input;
  for (int i = 0; i < 8; i++) { bool ok; std::string s = slurp("simin" + std::to_string(i), &ok); if (ok) m.io.fileIn[i] = s; }
  long words = m.loadImage(c.file);
  if (words < 0) { o.str("ref_status", "bad_image"); printf("%s\n", o.done().c_str()); return 0; }
  refmon::Monitor mon;
  mon.begin(m, (uint32_t)words);
  FILE *tf = traceFile.empty() ? nullptr : fopen(traceFile.c_str(), "w");
  refisa::StepInfo si;
  bool limit = false;
  while (true) {
    if (m.steps >= refSteps) { limit = true; break; }
    bool running = m.step(&si);
    bool executed = m.status == refisa::Status::RUNNING || m.status == refisa::Status::EXITED;
    if (executed) {
      mon.afterStep(m, si);
      if (tf) {
        if (si.isSvc) {
          uint32_t sp = m.mem[1];
          if (si.svcNum == 0) fprintf(tf, "%u %u svc 0 %u\n", si.fetchAddr, si.inst, m.exitValue);
          else if (si.svcNum == 1) fprintf(tf, "%u %u svc 1 %u %u\n", si.fetchAddr, si.inst, m.mem[sp + 2], m.mem[sp + 3]);
          else fprintf(tf, "%u %u svc 2 %u %u\n", si.fetchAddr, si.inst, si.storeData, si.storeAddr);
        } else fprintf(tf, "%u %u\n", si.fetchAddr, si.inst);
      }
    }
    if (!running) break;
  }
  if (tf) fclose(tf);
  o.str("ref_status", limit ? "step_limit" : refisa::statusName(m.status));
  o.num("ref_exit", m.exitValue);
  o.num("ref_steps", m.steps);
  o.hex("ref_out", m.io.out);
  o.num("ref_consumed", m.io.inPos);
  {
    vjson::Obj fo, fc;
    for (int i = 0; i < 8; i++) {
      if (m.io.usedOut[i]) fo.hex(std::to_string(i), m.io.fileOut[i]);
      if (m.io.usedIn[i]) fc.num(std::to_string(i), m.io.fileInPos[i]);
    }
    o.raw("ref_fileout", fo.done());
    o.raw("ref_filein_consumed", fc.done());
  }
  o.raw("monitor", mon.report());
  o.num("image_words", (uint64_t)words);
  // --- the repository's simulator, only when the reference run stayed inside the machine
  if (!noSim && !limit && m.status == refisa::Status::EXITED) {
    for (int i = 0; i < 8; i++) unlink(("simout" + std::to_string(i)).c_str());
    std::istringstream in(input);
    std::ostringstream out;
    int rv = 0;
    bool running = false;
    std::string simErr;
    {
      std::unique_ptr<hexsim::Processor> p(new hexsim::Processor(in, out, maxCycles));
      try {
        p->load("xtool.out.bin");
        rv = p->run();
        running = p->verifRunning();
      } catch (const std::exception &e) { simErr = e.what(); }
    }
    size_t consumed = (in.eof() || in.fail()) ? input.size() : (size_t)in.tellg();
    o.boolean("sim_ran", true);
    o.str("sim_error", simErr);
    o.boolean("sim_still_running", running);
    o.num("sim_exit", (uint32_t)rv);
    o.hex("sim_out", out.str());
    o.num("sim_consumed", consumed);
    vjson::Obj fo;
    for (int i = 0; i < 8; i++) { bool ok; std::string s = slurp("simout" + std::to_string(i), &ok); if (ok) fo.hex(std::to_string(i), s); }
    o.raw("sim_fileout", fo.done());
  } else {
    o.boolean("sim_ran", false);
  }
  printf("%s\n", o.done().c_str());
  return 0;
}

static int cmdDet(int argc, char **argv) {
  std::string src, other;
  for (int i = 2; i < argc; i++) {
    std::string a = argv[i];
    if (a == "--other" && i + 1 < argc) other = argv[++i];
    else src = a;
  }
  std::string text = slurp(src);
  std::string otherText = other.empty() ? std::string("proc main() is skip\n") : slurp(other);
  struct Out { bool ok; std::string file, listing, tree, err; };
  auto all = [&](int fill) {
    fillnew::set(fill);
    Out r;
    fillnew::poisonStack(fill < 0 ? 0x3C : fill);
    Compile b = compile(text, xcmp::DriverAction::EMIT_BINARY, "xtool.det.bin");
    fillnew::poisonStack(fill < 0 ? 0x3C : fill);
    Compile l = compile(text, xcmp::DriverAction::EMIT_ASM, "xtool.det.bin2");
    fillnew::poisonStack(fill < 0 ? 0x3C : fill);
    Compile t = compile(text, xcmp::DriverAction::EMIT_TREE, "xtool.det.bin3");
    fillnew::set(-1);
    r.ok = b.ok; r.file = b.file; r.listing = l.text; r.tree = t.text; r.err = b.errWhat;
    return r;
  };
  std::vector<Out> runs;
  runs.push_back(all(0x00));
  runs.push_back(all(0xA5));
  runs.push_back(all(0x01));   // the one byte value an uninitialised bool reads as a well-formed `true`
  fillnew::set(0x5A);
  (void)compile(otherText, xcmp::DriverAction::EMIT_BINARY, "xtool.det.other");
  fillnew::set(-1);
  runs.push_back(all(0x5A));
  runs.push_back(all(-1));
  vjson::Obj o;
  o.boolean("accepted", runs[0].ok);
  bool same = true;
  std::string what;
  for (size_t i = 1; i < runs.size(); i++) {
    if (runs[i].ok != runs[0].ok) { same = false; what = "acceptance"; }
    else if (runs[i].file != runs[0].file) { same = false; what = "binary"; }
    else if (runs[i].listing != runs[0].listing) { same = false; what = "listing"; }
    else if (runs[i].tree != runs[0].tree) { same = false; what = "tree"; }
    else if (runs[i].err != runs[0].err) { same = false; what = "diagnostic"; }
    if (!same) { o.num("differs_at_run", i); break; }
  }
  o.boolean("deterministic", same);
  o.str("what", what);
  o.num("binary_bytes", runs[0].file.size());
  printf("%s\n", o.done().c_str());
  return 0;
}

static int cmdAccept(int argc, char **argv) {
  if (argc < 3) return 2;
  std::string text = slurp(argv[2]);
  static const xcmp::DriverAction actions[] = {
      xcmp::DriverAction::EMIT_BINARY, xcmp::DriverAction::EMIT_TOKENS, xcmp::DriverAction::EMIT_TREE, xcmp::DriverAction::EMIT_OPTIMISED_TREE,
      xcmp::DriverAction::EMIT_INTERMEDIATE_INSTS, xcmp::DriverAction::EMIT_LOWERED_INSTS, xcmp::DriverAction::EMIT_OPTIMISED_INSTS, xcmp::DriverAction::EMIT_ASM};
  vjson::Arr arr;
  size_t lines = 1;
  for (char ch : text) if (ch == '\n') lines++;
  for (auto a : actions) {
    Compile c = compile(text, a, "xtool.acc.bin");
    vjson::Obj o;
    o.boolean("ok", c.ok); o.str("err_type", c.errType); o.str("err_what", c.errWhat); o.str("err_loc", c.errLoc);
    o.boolean("file_exists", access("xtool.acc.bin", F_OK) == 0);
    o.num("file_bytes", c.file.size());
    if (a == xcmp::DriverAction::EMIT_BINARY && c.ok && c.file.size() >= 4) {
      uint32_t hw = (uint8_t)c.file[0] | ((uint8_t)c.file[1] << 8) | ((uint8_t)c.file[2] << 16) | ((uint32_t)(uint8_t)c.file[3] << 24);
      o.boolean("header_fits", 4 + (uint64_t)hw * 4 <= c.file.size());
    }
    arr.raw(o.done());
  }
  vjson::Obj o;
  o.raw("actions", arr.done());
  o.num("lines", lines);
  printf("%s\n", o.done().c_str());
  return 0;
}

int main(int argc, char **argv) {
  if (argc < 3) { fprintf(stderr, "usage: xtool run|det|accept SRC ...\n"); return 2; }
  std::string cmd = argv[1];
  if (cmd == "run") return cmdRun(argc, argv);
  if (cmd == "det") return cmdDet(argc, argv);
  if (cmd == "accept") return cmdAccept(argc, argv);
  return 2;
}
