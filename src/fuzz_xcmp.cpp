// libFuzzer target for C09: xcmp accepts or cleanly rejects every input.
// The semantic oracle is inside the target; sanitizers (ASan+UBSan, asserts on) make crashes visible.
#include <cassert>
#include <cstdint>
#include <cstdio>
#include <fstream>
#include <sstream>
#include <string>
#include <unistd.h>

#include "fillnew.hpp"
#include "hex.hpp"
#include "hexasm.hpp"
#include "xcmp.hpp"

#include "fuzz_common.hpp"

static const char *const DICT[] = {"and", "array", "do", "else", "false", "func", "if", "is", "or", "proc", "return", "skip", "stop", "then", "true", "val",
                                   "var", "while", "main", ":=", "<=", ">=", "~=", "=", "<", ">", "~", "+", "-", "(", ")", "[", "]", "{", "}", ";", ",",
                                   "0", "1", "2", "#FF", "'a'", "\"s\"", "\"\xe9z\"", "'\xe9'", "x", "y", "f", "2147483648", "4294967295", "65536", "2147483647", "#80000000", "#FFFFFFFF", "#FFFFFFFFF", "#", "'\\n'", "'\\q'", "\"a\\nb\\\"\"", "|", "[0]", "0(", "99999999999999999999"};

static char OUT[64] = "fz.bin";

struct Outcome { bool threw = false; bool lexParse = false; bool hasLoc = false; unsigned long line = 0; std::string what; std::string file; bool fileExists = false; std::string text; };

static Outcome compileOnce(const std::string &text, xcmp::DriverAction action) {
  Outcome o;
  unlink(OUT);
  std::ostringstream out;
  try {
    xcmp::Driver driver(out);
    driver.run(action, text, false, OUT);
  } catch (const hexutil::Error &e) {
    o.threw = true; o.what = e.what();
    o.lexParse = dynamic_cast<const xcmp::TokenError *>(&e) || dynamic_cast<const xcmp::ParserTokenError *>(&e) || dynamic_cast<const xcmp::UnexpectedTokenError *>(&e) ||
                 dynamic_cast<const xcmp::ExpectedNameError *>(&e) || dynamic_cast<const xcmp::CharConstError *>(&e);
    if (e.hasLocation()) { o.hasLoc = true; sscanf(e.getLocation().str().c_str(), "line %lu", &o.line); }
  } catch (const std::exception &e) {
    o.threw = true; o.what = e.what();
  }
  o.text = out.str();
  o.fileExists = access(OUT, F_OK) == 0;
  if (o.fileExists) { std::ifstream f(OUT, std::ios::binary); std::ostringstream ss; ss << f.rdbuf(); o.file = ss.str(); }
  return o;
}

extern "C" int LLVMFuzzerInitialize(int *, char ***) {
  // -fork=N children share the working directory: one output file per process
  snprintf(OUT, sizeof OUT, "fz-%d.bin", (int)getpid());
  atexit(fz::dump);
  return 0;
}

extern "C" int LLVMFuzzerTestOneInput(const uint8_t *data, size_t size) {
  fz::tick();
  std::string text((const char *)data, size);
  size_t lines = 1;
  for (char c : text) if (c == '\n') lines++;
  fillnew::set(-1);
  Outcome o = compileOnce(text, xcmp::DriverAction::EMIT_BINARY);
  if (o.threw) {
    fz::g.rejected++;
    if (o.lexParse) fz::g.rejectedLexParse++; else { fz::g.rejectedSemantic++; fz::g.pastParser++; }
    if (o.fileExists) fz::oracleFail("a diagnostic was reported but a binary was emitted", o.what);
    if (o.hasLoc && o.line > lines + 1) fz::oracleFail("diagnostic location beyond the end of the input", o.what);
    if (!o.lexParse || size >= 12) fz::g.nontrivial++;
  } else {
    fz::g.accepted++; fz::g.pastParser++; fz::g.nontrivial++;
    if (!o.fileExists) fz::oracleFail("input accepted but no binary was written");
    if (o.file.size() < 4) fz::oracleFail("binary shorter than its header word");
    uint32_t hw = (uint8_t)o.file[0] | ((uint8_t)o.file[1] << 8) | ((uint8_t)o.file[2] << 16) | ((uint32_t)(uint8_t)o.file[3] << 24);
    if (4 + (uint64_t)hw * 4 > o.file.size()) fz::oracleFail("header word larger than the file");
    // uninitialised values that reach the output: same input under two heap fills
    if ((fz::hash(data, size) & 3) == 0) {
      fz::g.detChecks++;
      fillnew::set(0x00); fillnew::poisonStack(0x00); Outcome a = compileOnce(text, xcmp::DriverAction::EMIT_BINARY);
      fillnew::set(0xA5); fillnew::poisonStack(0xA5); Outcome b = compileOnce(text, xcmp::DriverAction::EMIT_BINARY);
      fillnew::set(0x00); fillnew::poisonStack(0x00); Outcome la = compileOnce(text, xcmp::DriverAction::EMIT_ASM);
      fillnew::set(0xA5); fillnew::poisonStack(0xA5); Outcome lb = compileOnce(text, xcmp::DriverAction::EMIT_ASM);
      fillnew::set(-1);
      if (a.threw != b.threw || a.file != b.file) fz::oracleFail("binary depends on the contents of fresh heap/stack memory (use of an uninitialised value)");
      if (la.threw != lb.threw || la.text != lb.text) fz::oracleFail("listing depends on the contents of fresh heap/stack memory (use of an uninitialised value)");
    }
  }
  if ((fz::hash(data, size) & 7) == 1) {
    fz::g.otherActions++;
    static const xcmp::DriverAction acts[] = {xcmp::DriverAction::EMIT_TOKENS, xcmp::DriverAction::EMIT_TREE, xcmp::DriverAction::EMIT_OPTIMISED_TREE,
                                              xcmp::DriverAction::EMIT_INTERMEDIATE_INSTS, xcmp::DriverAction::EMIT_LOWERED_INSTS,
                                              xcmp::DriverAction::EMIT_OPTIMISED_INSTS, xcmp::DriverAction::EMIT_ASM};
    for (auto a : acts) {
      Outcome x = compileOnce(text, a);
      if (x.fileExists) fz::oracleFail("a listing action wrote a binary file");
    }
  }
  unlink(OUT);
  return 0;
}

extern "C" size_t LLVMFuzzerCustomMutator(uint8_t *data, size_t size, size_t maxSize, unsigned int seed) {
  if (seed & 1) {
    size_t n = fz::tokenMutate(data, size, maxSize, seed, DICT, sizeof DICT / sizeof DICT[0]);
    if (n) return n;
  }
  return LLVMFuzzerMutate(data, size, maxSize);
}
