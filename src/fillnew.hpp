// Replacement global operator new that fills every fresh allocation with a
// chosen byte: the planted, deterministic version of "whatever the heap holds".
// Include in exactly one translation unit.
#ifndef VERIF_FILLNEW_HPP
#define VERIF_FILLNEW_HPP
#include <cstdlib>
#include <cstring>
#include <new>

namespace fillnew {
static int g_fill = -1; // -1: leave memory as malloc returned it
inline void set(int byte) { g_fill = byte; }

/// Fill the stack region that the next calls will use with a byte: the stack analogue of the heap fill, so
/// that an uninitialised member of an object that lives on the stack reads a planted value.
__attribute__((noinline)) inline void poisonStack(int byte) {
  volatile char buf[192 * 1024];
  for (size_t i = 0; i < sizeof buf; i++) buf[i] = (char)byte;
  __asm__ volatile("" ::: "memory");
}
} // namespace fillnew

void *operator new(std::size_t n) {
  void *p = std::malloc(n ? n : 1);
  if (!p) throw std::bad_alloc();
  if (fillnew::g_fill >= 0) std::memset(p, fillnew::g_fill, n);
  return p;
}
void *operator new[](std::size_t n) {
  void *p = std::malloc(n ? n : 1);
  if (!p) throw std::bad_alloc();
  if (fillnew::g_fill >= 0) std::memset(p, fillnew::g_fill, n);
  return p;
}
void operator delete(void *p) noexcept { std::free(p); }
void operator delete[](void *p) noexcept { std::free(p); }
void operator delete(void *p, std::size_t) noexcept { std::free(p); }
void operator delete[](void *p, std::size_t) noexcept { std::free(p); }
#endif
