// libFuzzer target for C10: hexasm accepts or cleanly rejects every input.
#include <cassert>
#include <cstdint>
#include <cstdio>
#include <fstream>
#include <sstream>
#include <string>
#include <unistd.h>

#include "fillnew.hpp"
#include "hex.hpp"
#include "hexasm.hpp"

#include "fuzz_common.hpp"

static const char *const DICT[] = {"ADD", "BRN", "BR", "BRB", "BRZ", "DATA", "FUNC", "LDAC", "LDAI", "LDAM", "LDAP", "LDBC", "LDBI", "LDBM", "OPR", "PROC", "STAI",
                                   "STAM", "SUB", "SVC", "-", "#", "0", "1", "15", "16", "255", "256", "65536", "2147483648", "4294967295", "99999999999999999999",
                                   "lab", "start", "x", "\n", "2147483647", "-2147483648", "-2147483649", "4294967296", "-1", "-16", "-256", "PFIX", "NFIX", "PADDING", "lab\nlab\n", "_", "a_very_long_identifier_a_very_long_identifier_a_very_long_identifier_a_very_long_identifier"};
static char OUT[64] = "fz.bin";

struct Outcome { bool threw = false; bool isError = false; std::string what; std::string file, listing; bool fileExists = false; };

static Outcome assembleOnce(const std::string &text) {
  Outcome o;
  unlink(OUT);
  try {
    hexasm::Lexer lexer;
    hexasm::Parser parser(lexer);
    lexer.loadBuffer(text);
    auto program = parser.parseProgram();
    hexasm::CodeGen codeGen(program);
    std::ostringstream ls;
    codeGen.emitProgramText(ls);
    o.listing = ls.str();
    codeGen.emitBin(OUT);
  } catch (const hexutil::Error &e) {
    o.threw = true; o.isError = true; o.what = e.what();
  } catch (const std::exception &e) {
    o.threw = true; o.what = e.what();
  }
  o.fileExists = access(OUT, F_OK) == 0;
  if (o.fileExists) { std::ifstream f(OUT, std::ios::binary); std::ostringstream ss; ss << f.rdbuf(); o.file = ss.str(); }
  return o;
}

extern "C" int LLVMFuzzerInitialize(int *, char ***) {
  // -fork=N children share the working directory: one output file per process
  snprintf(OUT, sizeof OUT, "fz-%d.bin", (int)getpid());
  atexit(fz::dump);
  return 0;
}

extern "C" int LLVMFuzzerTestOneInput(const uint8_t *data, size_t size) {
  fz::tick();
  std::string text((const char *)data, size);
  fillnew::set(-1);
  Outcome o = assembleOnce(text);
  if (o.threw) {
    fz::g.rejected++;
    if (o.fileExists) fz::oracleFail("a diagnostic was reported but an image was emitted", o.what);
    if (size >= 8) fz::g.nontrivial++;
  } else {
    fz::g.accepted++; fz::g.pastParser++;
    if (size >= 4) fz::g.nontrivial++;
    if (!o.fileExists) fz::oracleFail("input accepted but no image was written");
    if (o.file.size() < 4) fz::oracleFail("image file shorter than its header word");
    uint32_t hw = (uint8_t)o.file[0] | ((uint8_t)o.file[1] << 8) | ((uint8_t)o.file[2] << 16) | ((uint32_t)(uint8_t)o.file[3] << 24);
    if (4 + (uint64_t)hw * 4 > o.file.size()) fz::oracleFail("header word larger than the file");
    if ((fz::hash(data, size) & 3) == 0) {
      fz::g.detChecks++;
      fillnew::set(0x00); fillnew::poisonStack(0x00); Outcome a = assembleOnce(text);
      fillnew::set(0xA5); fillnew::poisonStack(0xA5); Outcome b = assembleOnce(text);
      fillnew::set(-1);
      if (a.threw != b.threw || a.file != b.file || a.listing != b.listing) fz::oracleFail("output depends on the contents of fresh heap memory (use of an uninitialised value)");
    }
  }
  // the tokeniser entry point
  if ((fz::hash(data, size) & 7) == 1) {
    fz::g.otherActions++;
    try { hexasm::Lexer lexer; lexer.loadBuffer(text); std::ostringstream ts; lexer.emitTokens(ts); } catch (const std::exception &) {}
  }
  unlink(OUT);
  return 0;
}

extern "C" size_t LLVMFuzzerCustomMutator(uint8_t *data, size_t size, size_t maxSize, unsigned int seed) {
  if (seed & 1) {
    size_t n = fz::tokenMutate(data, size, maxSize, seed, DICT, sizeof DICT / sizeof DICT[0]);
    if (n) return n;
  }
  return LLVMFuzzerMutate(data, size, maxSize);
}
