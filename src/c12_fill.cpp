// C12: hexsim::Processor constructed inside storage that was pre-filled with a byte pattern - the planted,
// deterministic version of "whatever the host's stack and heap hold".
//   c12fill IMAGE INPUT [--max-cycles N] [--trace]
// Runs the image under fills 0x00, 0xA5, 0xFF, 0x01 and an address-dependent pattern; prints one JSON object
// with the result of every run (return value of run(), still-running flag, console bytes, input position).
#include <cassert>
#include <cstdio>
#include <cstdlib>
#include <cstring>
#include <fstream>
#include <iostream>
#include <new>
#include <sstream>
#include <string>
#include <unistd.h>

#include "fillnew.hpp"
#include "hexsim.hpp"
#include "vjson.hpp"

static std::string slurp(const char *p) { std::ifstream f(p, std::ios::binary); std::ostringstream ss; ss << f.rdbuf(); return ss.str(); }

alignas(64) static unsigned char storage[sizeof(hexsim::Processor)];

int main(int argc, char **argv) {
  if (argc < 3) { fprintf(stderr, "usage: c12fill IMAGE INPUT [--max-cycles N] [--trace]\n"); return 2; }
  size_t maxCycles = 0; bool trace = false;
  for (int i = 3; i < argc; i++) {
    if (!strcmp(argv[i], "--max-cycles") && i + 1 < argc) maxCycles = strtoull(argv[++i], 0, 10);
    else if (!strcmp(argv[i], "--trace")) trace = true;
  }
  std::string input = slurp(argv[2]);
  vjson::Arr runs;
  for (int fill = 0; fill < 5; fill++) {
    for (size_t i = 0; i < sizeof storage; i++)
      storage[i] = fill == 0 ? 0x00 : fill == 1 ? 0xA5 : fill == 2 ? 0xFF : fill == 4 ? 0x01 : (unsigned char)(i * 131 + (i >> 8) * 7 + 13);
    for (int i = 0; i < 8; i++) unlink(("simout" + std::to_string(i)).c_str());
    std::istringstream in(input);
    std::ostringstream out;
    vjson::Obj o;
    o.num("fill", fill);
    int rv = 0; bool running = false; std::string err;
    // fresh heap blocks and the stack below this frame hold the same planted byte as the object's storage
    int fb = fill == 0 ? 0x00 : fill == 1 ? 0xA5 : fill == 2 ? 0xFF : fill == 4 ? 0x01 : 0x3C;   // 0x01: an uninitialised bool that reads as a well-formed `true`
    fillnew::set(fb); fillnew::poisonStack(fb);
    {
      hexsim::Processor *p = new (storage) hexsim::Processor(in, out, maxCycles);
      try {
        p->setTracing(trace);
        p->load(argv[1]);
        rv = p->run();
        running = p->verifRunning();
      } catch (const std::exception &e) { err = e.what(); }
      p->~Processor();
    }
    fillnew::set(-1);
    o.snum("rv", rv); o.boolean("still_running", running); o.str("error", err);
    o.hex("out", out.str());
    o.num("consumed", (in.eof() || in.fail()) ? input.size() : (size_t)in.tellg());
    vjson::Obj fo;
    for (int i = 0; i < 8; i++) { std::ifstream f("simout" + std::to_string(i), std::ios::binary); if (f) { std::ostringstream ss; ss << f.rdbuf(); fo.hex(std::to_string(i), ss.str()); } }
    o.raw("fileout", fo.done());
    runs.raw(o.done());
  }
  vjson::Obj top; top.raw("runs", runs.done());
  printf("%s\n", top.done().c_str());
  return 0;
}
